"""C17 — exit status follows the documented contract in every mode."""
import itertools
import os
import random

import fsharness as fh
import fscommon as fc
import handler_diff as hd
import samples
from framework import coq_property, build_model, build_cli, write_replay, model_bin, sh


def contract(check, brp, errors, unsupported, modified):
    """The documented contract, stated independently."""
    if check:
        return errors > 0 or unsupported > 0 or modified > 0
    if brp:
        return False
    return errors > 0


def run(ctx):
    rng = random.Random(ctx.seed)
    coq_property(ctx)
    ok, out = build_model()
    ctx.oblige("build: models extract and the OCaml runner builds", ok, out[-300:])
    ok2, out2 = build_cli()
    ctx.oblige("build: CLI builds from /repo's current tree", ok2, out2[-500:])
    if not (ok and ok2):
        return
    known = hd.known_kinds_for("C17")
    combos = [c + (linked,) for c in itertools.product([False, True], repeat=6) for linked in ((False, True) if c[5] else (False,))]
    # brp, check, parallel, errors, unsupported, modifiable, modifiable files are hard-linked (rewritten in place instead of replaced)
    cases = []
    t = fh.Tree()
    fails, mism = [], []
    samples_out = []
    try:
        vlines = []
        results = []
        for i, (brp, check, par, has_err, has_uns, has_mod, linked) in enumerate(combos):
            # engineered tree
            for f in os.listdir(t.path("")) if os.path.isdir(t.path("")) else []:
                pass
            sub = "t%d" % i
            t.mkdir(sub)
            t.add_file(sub + "/clean.gz", fc.gz(5))
            t.add_file(sub + "/clean.a", fc.ar([("x.o/", 5, 0, 0, 100644, b"ab")]))
            # files of the other formats that need nothing: bytecode of interpreters the pyc handler leaves alone, a page without stamp, an archive of old members
            k = i % 4
            if k == 0:
                t.add_file(sub + "/py27.pyc", samples.old_pyc(62211))
            elif k == 1:
                t.add_file(sub + "/py33.pyc", samples.old_pyc(3230))
            elif k == 2:
                t.add_file(sub + "/plain.html", b"<html><head><title>t</title></head>\n<body>text</body></html>\n")
            else:
                t.add_file(sub + "/old.zip", samples.mixed_zip(samples.EPOCH - 10 ** 7), mtime_ns=(samples.EPOCH - 1000) * 10 ** 9)
            if has_err:
                # files a handler fails on, for different reasons: all count as errors, none as unsupported
                k = (i // 4) % 3
                if k == 0:
                    t.add_file(sub + "/short.gz", b"\x1f\x8b\x08")          # io error while reading the header
                elif k == 1:
                    t.add_file(sub + "/badsize.a", b"!<arch>\n" + b"x.o/            0           0     0     100644  12xx      `\nabcd")      # a size field that is no number
                else:
                    t.add_file(sub + "/cutdata.a", fc.ar([("x.o/", 5, 0, 0, 100644, b"abcdefgh")])[:-5])      # member data shorter than announced
            if has_uns:
                # files a handler refuses as not being of its format, for different stated reasons: all count as unsupported, none as an error
                k = i % 4
                if k == 0:
                    t.add_file(sub + "/notgz.gz", b"this is not gzip at all")                       # bad magic
                elif k == 1:
                    t.add_file(sub + "/odd.pyc", bytes([203, 13, 13, 10]) + b"\0" * 12 + b"!")      # 3.12 header, then a type code that does not exist
                elif k == 2:
                    t.add_file(sub + "/oversize.a", b"!<arch>\n" + b"x.o/            0           0     0     100644  4294967295`\nabcd")   # member size that cannot be padded
                else:
                    t.add_file(sub + "/beyond.zip", samples.zip_member_beyond_eof())                 # member data said to extend past the end of the file
            if has_mod and (has_err + has_uns + par) % 2 == 0 and not linked:
                # the only modifiable file is an archive already in the tool's own layout, whose file date is old and whose last member
                # needs nothing: only the time stamps of members in the middle make it modifiable
                t.add_file(sub + "/mixed.zip", samples.canonical_mixed_zip(), mtime_ns=(samples.EPOCH - 1000) * 10 ** 9)
            elif has_mod:
                t.add_file(sub + "/dirty.gz", fc.gz(1700000000))
                t.add_file(sub + "/dirty.a", fc.ar([("x.o/", 1700000000, 7, 8, 100644, b"abc")]))
                if linked:
                    t.link(sub + "/dirty.gz", sub + "/dirty-link.gz")
                    t.link(sub + "/dirty.a", sub + "/dirty-link.a")
            args = []
            env = {}
            if brp:
                args.append("--brp")
                env["RPM_BUILD_ROOT"] = t.root
            if check:
                args.append("--check")
            if par:
                args.append("-j2")
            args.append(t.path(sub))
            rc, out = fh.run_cli(args, epoch=samples.EPOCH, env_extra=env, timeout=60)
            s = fh.parse_summary(out)
            label = "%s%s%s errors=%d unsupported=%d modifiable=%d%s" % ("--brp " if brp else "", "--check " if check else "", "-j2 " if par else "", has_err, has_uns, has_mod, " (hard-linked)" if linked else "")
            if s is None:
                fails.append(("no-summary", "%s: no summary (exit %d): %s" % (label, rc, out[-200:]), label))
                continue
            # the engineered tree must realise the intended combination
            realised = (s["errors"] > 0, s["unsupported"] > 0, s["modified"] > 0) == (has_err, has_uns, has_mod)
            if not realised:
                mism.append((label, "tree does not realise the combination: %s" % s))
            want = contract(check, brp, s["errors"], s["unsupported"], s["modified"])
            if (rc != 0) != want:
                fails.append(("exit-contract", "%s: summary %s, exit status %d, documented contract says %s" % (label, s, rc, "fail" if want else "succeed"), label))
            want_truth = contract(check, brp, has_err, has_uns, has_mod)          # judged on what the tree contains, not on what was reported
            if (rc != 0) != want_truth:
                fails.append(("exit-vs-tree", "%s: exit status %d (summary %s), but the tree %s and the documented contract says %s" % (
                    label, rc, s, "holds: " + ", ".join(n for n, b in (("a failing file", has_err), ("an unsupported file", has_uns), ("modifiable files", has_mod)) if b) or "is clean", "fail" if want_truth else "succeed"), label))
            if rc not in (0, 1):
                fails.append(("exit-abnormal", "%s: abnormal exit status %d" % (label, rc), label))
            vlines.append("V v%d %d %d %d %d %d %d" % (i, check, brp, s["errors"], s["unsupported"], s["replaced"], s["rewritten"]))
            results.append((i, label, rc))
            if i % 17 == 0:
                samples_out.append({"case": label, "summary": s, "exit": rc})
        # errors of other origins: two handlers disagreeing about one file, an argument that does not exist, a name that is not UTF-8
        extra = []
        for brp, check, par in itertools.product([False, True], repeat=3):
            for origin in ("two-handlers-error-and-unsupported", "missing-argument", "non-utf8-name"):
                i = len(combos) + len(extra)
                sub = "x%d" % i
                t.mkdir(sub)
                t.add_file(sub + "/clean.gz", fc.gz(5))
                args, env = [], {}
                if brp:
                    args.append("--brp")
                    env["RPM_BUILD_ROOT"] = t.root
                if check:
                    args.append("--check")
                if par:
                    args.append("-j2")
                if origin == "two-handlers-error-and-unsupported":
                    # truncated archive: an error for ar, not a gzip file at all for gzip (unsupported); the error must win
                    t.add_file(sub + "/trunc.a", fc.ar([("x.o/", 5, 0, 0, 100644, b"abcdef")])[:-3])
                    args += ["--ignore-extension", "--handler", "ar,gzip", t.path(sub + "/trunc.a")]
                elif origin == "missing-argument":
                    args += [t.path(sub), t.path(sub + "/does-not-exist")]
                else:
                    t.add_file(sub + "/bad-\udcff\udcfe.gz", fc.gz(5))
                    args += [t.path(sub)]
                rc, out = fh.run_cli(args, epoch=samples.EPOCH, env_extra=env, timeout=60)
                s = fh.parse_summary(out)
                label = "%s%s%s %s" % ("--brp " if brp else "", "--check " if check else "", "-j2 " if par else "", origin)
                extra.append(label)
                want_truth = contract(check, brp, True, False, False)
                if (rc != 0) != want_truth:
                    fails.append(("exit-vs-tree", "%s: exit status %d (summary %s), but processing met an error and the documented contract says %s" % (label, rc, s, "fail" if want_truth else "succeed"), label))
                if s is not None and s["errors"] == 0:
                    fails.append(("error-not-counted", "%s: an error occurred but the summary reports %s" % (label, s), label))
        # a modifiable archive with a second name that no handler claims, that name being met first: it is still found modifiable
        for brp, check, par in itertools.product([False, True], repeat=3):
            sub = "alias%d%d%d" % (brp, check, par)
            t.add_file(sub + "/lib/libfoo.a", fc.ar([("x.o/", 1700000000, 7, 8, 100644, b"abc")]))
            t.link(sub + "/lib/libfoo.a", sub + "/0-cache/libfoo.a.orig")
            t.add_file(sub + "/lib/clean.gz", fc.gz(5))
            args, env = [], {}
            if brp:
                args.append("--brp")
                env["RPM_BUILD_ROOT"] = t.root
            if check:
                args.append("--check")
            if par:
                args.append("-j2")
            rc, out = fh.run_cli(args + [t.path(sub + "/0-cache"), t.path(sub + "/lib")], epoch=samples.EPOCH, env_extra=env, timeout=60)
            s = fh.parse_summary(out)
            label = "%s%s%s a modifiable archive whose other name, claimed by no handler, comes first" % ("--brp " if brp else "", "--check " if check else "", "-j2 " if par else "")
            extra.append(label)
            want_truth = contract(check, brp, False, False, True)
            if (rc != 0) != want_truth or s is None or s["modified"] != 1:
                fails.append(("exit-vs-tree", "%s: exit status %d (summary %s), but the tree holds a modifiable file and the documented contract says %s" % (label, rc, s, "fail" if want_truth else "succeed"), label))
        # one of two workers is killed (it crosses a file-size limit with the default action of SIGXFSZ) while the other goes on: its files
        # count as failed, whatever the other reports
        for brp in (False, True):
            sub = "killed%d" % brp
            t.add_file(sub + "/big.a", fc.ar([("big.o/", 1700000000, 7, 8, 100644, bytes(range(256)) * 256)]))
            for k in range(6):
                t.add_file(sub + "/small%d.gz" % k, fc.gz(1700000000 + k))
            env = {"RPM_BUILD_ROOT": t.root} if brp else {}
            rc, out = fh.run_cli((["--brp"] if brp else []) + ["-j2", t.path(sub)], epoch=samples.EPOCH, env_extra=env, timeout=60, fsize_limit=8192, fsize_kill=True)
            s = fh.parse_summary(out)
            label = "%s-j2 with one worker killed by a signal" % ("--brp " if brp else "")
            extra.append(label)
            want_truth = contract(False, brp, True, False, True)
            if open(t.path(sub + "/big.a"), "rb").read()[24:34] != b"1700000000":
                continue                      # the archive was rewritten after all: the limit did not bite, nothing to judge
            if (rc != 0) != want_truth:
                fails.append(("exit-vs-tree", "%s: exit status %d (summary %s), but a worker died with its file unprocessed and the documented contract says %s" % (label, rc, s, "fail" if want_truth else "succeed"), label))
            if s is not None and s["errors"] == 0:
                fails.append(("error-not-counted", "%s: a worker was lost but the summary reports %s" % (label, s), label))
        # nothing wrong at all, but a path longer than a kilobyte: every mode succeeds, with and without workers
        for brp, check, par in itertools.product([False, True], repeat=3):
            sub = "long%d%d%d" % (brp, check, par)
            t.add_file(sub + "/" + "/".join("d%d-" % k + "y" * 180 for k in range(6)) + "/clean.a", fc.ar([("x.o/", 5, 0, 0, 100644, b"ab")]))
            t.add_file(sub + "/clean.gz", fc.gz(5))
            args, env = [], {}
            if brp:
                args.append("--brp")
                env["RPM_BUILD_ROOT"] = t.root
            if check:
                args.append("--check")
            if par:
                args.append("-j2")
            rc, out = fh.run_cli(args + [t.path(sub)], epoch=samples.EPOCH, env_extra=env, timeout=60)
            s = fh.parse_summary(out)
            label = "%s%s%s clean files, one below a very long path" % ("--brp " if brp else "", "--check " if check else "", "-j2 " if par else "")
            extra.append(label)
            if rc != 0 or s is None or s["errors"] != 0:
                fails.append(("exit-vs-tree", "%s: exit status %d (summary %s), but the tree is clean and the documented contract says succeed" % (label, rc, s), label))
        cf = os.path.join(ctx.tmp, "verdict.txt")
        open(cf, "w").write("\n".join(vlines) + "\n")
        rcm, mout = sh([model_bin(), cf, "debug", "cfg"], timeout=120)
        mv = dict(l.split() for l in mout.split("\n") if len(l.split()) == 2)
        for i, label, rc in results:
            if mv.get("v%d" % i) != ("FAIL" if rc != 0 else "PASS"):
                mism.append((label, "model verdict %s vs exit status %d" % (mv.get("v%d" % i), rc)))
    finally:
        t.remove()
    ctx.oblige("correspondence[verdict]: exit status of %d runs = model (Gen.main_verdict on the reported counters); engineered trees realise all combinations" % len(combos),
               not mism, "; ".join("%s: %s" % x for x in mism[:4]))
    seen = set()
    for kind, msg, label in fails:
        if kind in known:
            if kind not in seen:
                ctx.known.append("%s: %s [%s]" % (known[kind]["id"], known[kind]["what"], label))
            seen.add(kind)
            continue
        if kind in seen:
            continue
        seen.add(kind)
        d = write_replay(ctx, kind, {}, {"failure": msg, "kind": kind, "case": label,
                                         "how_to_replay": "tree with clean.gz clean.a [+ short.gz (3 bytes 1f8b08) for an error] [+ notgz.gz for unsupported] [+ dirty.gz dirty.a (gzip MTIME / ar mtime 1700000000, epoch 1577836800) [each with a second hard link]]; run with the stated flags"})
        ctx.violations.append({"replay": d, "kind": kind, "msg": msg})
    ctx.coverage.update({
        "evaluations": len(combos) + len(extra), "distinct_nontrivial": len(combos) - 8 + len(extra), "other_error_origins": extra[:6],
        "rule": "all 64 combinations {plain,--brp} x {--check or not} x {serial,-j2} x {errors present} x {unsupported present} x {modifiable present} (modifiable files single-link and hard-linked: 96 runs), each realised by an engineered tree "
                "(checked against the reported counters); exit status compared with the documented contract and with the model's verdict; non-trivial = not the all-clean tree",
        "samples": samples_out, "exhaustive": True, "correspondence_mismatches": len(mism), "oracle_failures": len(fails),
    })
