"""C09 — file mode, owner, mtime and hard links survive replacement."""
import os
import random

import fsharness as fh
import fscommon as fc
import samples
from framework import coq_property, build_model, build_cli, write_replay


def scenarios(rng, tier):
    cs = fc.contents(rng)
    dirty = [c for c in cs if c[1].startswith("dirty")]
    other = [c for c in cs if not c[1].startswith("dirty")]
    modes = [0o644, 0o600, 0o755, 0o4755, 0o2755, 0o6755, 0o1644, 0o7777, 0o0, 0o2644, 0o4644, 0o444]
    if tier == "thorough":
        modes = sorted(set(modes + [rng.randrange(0o10000) for _ in range(300)]))
    out = []
    for i, m in enumerate(modes):
        h, tag, data, e = dirty[i % len(dirty)]
        out.append(fc.Scenario(h, tag, data, e, mode=m, mtime_ns=fc.NOW_NS - rng.randrange(10 ** 9) * 1000 - rng.randrange(1000),
                               uid=rng.choice([0, 1234]), gid=rng.choice([0, 5678]), nlink=1))
    for nl in (2, 3):
        for h, tag, data, e in dirty[:2] + dirty[2:3]:
            out.append(fc.Scenario(h, tag, data, e, mode=rng.choice([0o644, 0o6755, 0o400]), mtime_ns=fc.NOW_NS - 12345, uid=1234, gid=5678, nlink=nl))
    for h, tag, data, e in other:
        out.append(fc.Scenario(h, tag, data, e, mode=0o4750, mtime_ns=fc.NOW_NS - 999, uid=1234, gid=5678, nlink=rng.choice([1, 2])))
    # modification times at the edges: before 1970 (negative), zero, one nanosecond, beyond 2038 and 2106 (below 2^62 ns: the model driver reads OCaml ints)
    for k, mt in enumerate((-86_399_876_543_211, -1_500_000_000, -1, 0, 1, (2 ** 31 + 5) * 10 ** 9 + 7, (2 ** 32 + 7) * 10 ** 9 + 999_999_999)):
        h, tag, data, e = dirty[k % len(dirty)]
        out.append(fc.Scenario(h, tag, data, e, mode=0o644, mtime_ns=mt, uid=0, gid=0, nlink=1 + k % 2))
    out.append(fc.Scenario("gzip", "dirty", dirty[0][2], 1000, mode=0o6755, stale=True))
    out.append(fc.Scenario("ar", "dirty", [c for c in dirty if c[0] == "ar"][0][2], 1000, mode=0o2711, stale=True, nlink=2))
    return out


def oracle(sc, r):
    """The property, judged on the real before/after snapshots only."""
    fails = []
    rel = "d/" + sc.name
    b, a = r["before"][rel], r["after"].get(rel)
    cls = fc.class_of_summary(r["summary"])
    if a is None:
        return [("file-vanished", "the processed file no longer exists")]
    if cls in ("Replaced", "Rewritten"):
        for k in ("mode", "uid", "gid", "mtime_ns"):
            if a[k] != b[k]:
                fails.append(("metadata-" + k, "%s changed from %s to %s after %s" % (k, oct(b[k]) if k == "mode" else b[k], oct(a[k]) if k == "mode" else a[k], cls)))
        if a["data"] == b["data"]:
            fails.append(("reported-but-unchanged", "%s reported but bytes are identical" % cls))
    if sc.nlink > 1:
        if a["ino"] != b["ino"] or a["nlink"] != b["nlink"]:
            fails.append(("hardlink-broken", "multi-link file: inode %d->%d nlink %d->%d" % (b["ino"], a["ino"], b["nlink"], a["nlink"])))
        for rel2, e in r["after"].items():
            if e["kind"] == "R" and r["before"].get(rel2, {}).get("ino") == b["ino"] and e["data"] != a["data"]:
                fails.append(("links-diverge", "link %s shows different content" % rel2))
        if cls == "Replaced":
            fails.append(("class-vs-links", "a file with %d links was reported as replaced" % sc.nlink))
    else:
        if cls == "Replaced" and a["ino"] == b["ino"]:
            fails.append(("replaced-same-inode", "reported replaced but the inode number is unchanged"))
        if cls == "Rewritten":
            fails.append(("class-vs-links", "a single-link file was reported as rewritten"))
    if cls in ("Noop", "BadFormat", "Error"):
        for k in ("mode", "uid", "gid", "mtime_ns", "ino", "data", "nlink"):
            if a[k] != b[k]:
                fails.append(("untouched-" + k, "class %s but %s changed" % (cls, k)))
    bys = "d/bystander.txt"
    if r["after"].get(bys) != r["before"].get(bys):
        fails.append(("bystander", "an unrelated file changed"))
    tmp = "d/.#." + sc.name + ".tmp"
    if tmp in r["after"]:
        fails.append(("temp-left", "temporary file left behind after a completed run"))
    return fails



def all_handlers_linked(ctx, fails):
    """Every handler on a dirty file with one and with several links: the same bytes come out, seen through every link;
    the multi-link file keeps its inode; mode (set-id and sticky bits included) and ns mtime are kept."""
    res = []
    for n, (data, hs) in samples.per_handler().items():
        outs = {}
        for nlink in (1, 2, 3):
            t = fh.Tree()
            try:
                t.add_file("d/" + n, data, mode=0o2755 if nlink == 2 else 0o640, mtime_ns=1_650_000_000_123_456_789)
                for k in range(1, nlink):
                    t.link("d/" + n, "d/alias%d-%s" % (k, n) if k == 1 else "other/alias%d.bin" % k)
                before = fh.snapshot(t.root)
                # with three links, a link whose name no handler matches is visited before the matching ones
                rc, out = fh.run_cli(["--handler", hs[0]] + ([t.path("other")] if nlink == 3 else []) + [t.path("d")], epoch=samples.EPOCH, timeout=60)
                after = fh.snapshot(t.root)
                label = "%s handler, %d link(s)" % (hs[0], nlink)
                a, b = after.get("d/" + n), before["d/" + n]
                if a is None or a["kind"] != "R":
                    fails.append((None, "linked-file-lost", "%s: d/%s is gone or no regular file" % (label, n)))
                    continue
                outs[nlink] = a["data"]
                if a["data"] == data:
                    fails.append((None, "linked-not-processed", "%s: the dirty sample was not modified (exit %d)" % (label, rc)))
                if a["mode"] != b["mode"] or a["mtime_ns"] != b["mtime_ns"] or a["uid"] != b["uid"] or a["gid"] != b["gid"]:
                    fails.append((None, "linked-metadata", "%s: mode/owner/mtime %o %d:%d %d -> %o %d:%d %d" % (label, b["mode"], b["uid"], b["gid"], b["mtime_ns"], a["mode"], a["uid"], a["gid"], a["mtime_ns"])))
                if nlink > 1:
                    if a["ino"] != b["ino"] or a["nlink"] != nlink:
                        fails.append((None, "linked-inode", "%s: inode %d (%d links) became inode %d (%d links)" % (label, b["ino"], b["nlink"], a["ino"], a["nlink"])))
                    for rel, e in after.items():
                        if e["kind"] == "R" and before.get(rel, {}).get("ino") == b["ino"] and e["data"] != a["data"]:
                            fails.append((None, "linked-views-differ", "%s: %s shows different bytes than d/%s" % (label, rel, n)))
                leftovers = [r for r in after if os.path.basename(r).startswith(".#.")]
                if leftovers:
                    fails.append((None, "linked-temp-left", "%s: %s left behind" % (label, leftovers)))
            finally:
                t.remove()
        if len(set(outs.values())) > 1:
            fails.append((None, "linked-output-differs", "%s: the bytes written depend on the link count (%s)" % (hs[0], {k: len(v) for k, v in outs.items()})))
        res.append({"handler": hs[0], "file": n, "bytes_out": {k: len(v) for k, v in outs.items()}})
    return res


def unprivileged_runs(ctx, fails):
    """An invoker who may not give files away: the replacement cannot get the original's owner (a warning, by design), but it must
    get its mode and mtime, and the bytes a privileged run writes."""
    import shutil
    res = []
    if os.getuid() != 0:
        ctx.notes.append("unprivileged runs skipped: the check itself does not run as root")
        return res
    NOBODY = 65534
    for n, (data, hs) in samples.per_handler().items():
        if hs[0] not in ("gzip", "ar", "javadoc"):
            continue
        for mode in (0o755, 0o604, 0o444):
            t = fh.Tree()
            try:
                os.chmod(t.root, 0o755)
                t.mkdir("bin")
                shutil.copy(fh.cli_bin(False), t.path("bin/adet"))
                os.chmod(t.path("bin/adet"), 0o755)
                t.mkdir("d")
                t.add_file("d/" + n, data, mode=mode, mtime_ns=1_650_000_000_123_456_789)      # owned by root
                os.chown(t.path("d"), NOBODY, NOBODY)
                t.add_file("ref/" + n, data, mode=mode, mtime_ns=1_650_000_000_123_456_789)
                fh.run_cli(["--handler", hs[0], t.path("ref")], epoch=samples.EPOCH, timeout=60)
                want = open(t.path("ref/" + n), "rb").read()
                before = os.lstat(t.path("d/" + n))
                rc, out = fh.run_cli(["--handler", hs[0], t.path("d")], epoch=samples.EPOCH, timeout=60, as_uid=NOBODY, binary=t.path("bin/adet"))
                after = os.lstat(t.path("d/" + n))
                got = open(t.path("d/" + n), "rb").read()
                label = "%s handler as uid %d on root's file of mode %o" % (hs[0], NOBODY, mode)
                res.append({"case": label, "exit": rc})
                if got != want or want == data:
                    fails.append((None, "unprivileged-content", "%s: the file does not hold the bytes a privileged run writes (exit %d: %s)" % (label, rc, out[-200:])))
                elif (after.st_mode & 0o7777) != mode or after.st_mtime_ns != before.st_mtime_ns:
                    fails.append((None, "unprivileged-metadata", "%s: mode %o mtime %d became mode %o mtime %d" % (label, mode, before.st_mtime_ns, after.st_mode & 0o7777, after.st_mtime_ns)))
            finally:
                t.remove()
    return res


def run(ctx):
    rng = random.Random(ctx.seed)
    coq_property(ctx)
    ok, out = build_model()
    ctx.oblige("build: models extract and the OCaml runner builds", ok, out[-300:])
    ok2, out2 = build_cli()
    ctx.oblige("build: CLI builds from /repo's current tree", ok2, out2[-500:])
    if not (ok and ok2):
        return
    scs = scenarios(rng, ctx.tier)
    runs = []
    mcases = []
    try:
        for i, sc in enumerate(scs):
            r = fc.traced_run(ctx, sc, "s%d" % i)
            r["sc"] = sc
            runs.append(r)
            mcases.append(r["mcase"])
        mres = fh.model_fs_run(ctx, mcases)
        mism = []
        fails = []
        for i, r in enumerate(runs):
            sc = r["sc"]
            m = mres.get("s%d" % i)
            if m is None or "class" not in m:
                mism.append((sc, "no model result"))
                continue
            cls = fc.class_of_summary(r["summary"])
            if cls != m["class"]:
                mism.append((sc, "class real %s vs model %s" % (cls, m["class"])))
            rt = fh.collapse(r["ops"], target=r["t"].path("d/" + sc.name))
            mt = fh.model_trace(m.get("trace", ""))
            if rt != mt:
                mism.append((sc, "operation trace real %s vs model %s" % (rt, mt)))
            d = fc.compare_final(sc, r["t"], r["before"], r["after"], m, r["inos"])
            if d:
                mism.append((sc, "final state: " + "; ".join(d[:4])))
            for kind, msg in oracle(sc, r):
                fails.append((sc, kind, msg))
        ctx.oblige("correspondence[fs]: class, operation trace and final state of %d real runs = model (Helper.run_handler)" % len(runs),
                   not mism, "; ".join("%s: %s" % (sc.label(), why) for sc, why in mism[:4]))
        lres = all_handlers_linked(ctx, fails)
        ures = unprivileged_runs(ctx, fails)
        ctx.coverage["unprivileged_runs"] = len(ures)
        seen = set()
        for sc, kind, msg in fails:
            if kind in seen:
                continue
            seen.add(kind)
            if sc is None:
                d = write_replay(ctx, kind, {n: data for n, (data, hs) in samples.per_handler().items()},
                                 {"failure": msg, "kind": kind, "epoch": samples.EPOCH,
                                  "how_to_replay": "put the named sample into d/ (mode 2755 or 640, fixed mtime), add hard links as stated, SOURCE_DATE_EPOCH=<epoch> add-determinism --handler <handler> d; compare links, inode, mode, mtime"})
                ctx.violations.append({"replay": d, "kind": kind, "msg": msg})
                continue
            d = write_replay(ctx, kind, fc.replay_files(sc), fc.replay_info(sc, failure=msg, kind=kind))
            ctx.violations.append({"replay": d, "kind": kind, "msg": msg})
        nontriv = len(set((r["sc"].handler, r["sc"].tag, r["sc"].mode, r["sc"].nlink, r["sc"].uid, r["sc"].stale) for r in runs
                          if fc.class_of_summary(r["summary"]) in ("Replaced", "Rewritten")))
        ctx.coverage.update({
            "evaluations": len(runs) + 3 * len(lres), "distinct_nontrivial": nontriv + 3 * len(lres), "all_handlers_by_link_count": lres,
            "rule": "real CLI runs under strace on scratch trees: dirty gzip/ar files x modes (set-id, sticky, 0, 07777; thorough: 300 random modes) x owners 0:0/1234:5678 "
                    "x ns mtimes x link counts 1..3 (links inside and outside the directory) x stale temp file, plus clean/malformed files; compared with the model's "
                    "class, abstract operation trace and final observations, and judged by the property oracle; every handler (zip, jar, javadoc, pyc included) on its dirty sample with 1, 2 and 3 links "
                    "(same bytes whatever the link count, same inode and all links updated when linked, mode incl. set-gid and ns mtime kept); non-trivial = file was replaced or rewritten; distinct by scenario parameters",
            "samples": [{"scenario": r["sc"].label(), "class": fc.class_of_summary(r["summary"]), "trace": fh.collapse(r["ops"], r["t"].path("d/" + r["sc"].name))} for r in runs[:3]],
            "traces_validated_against_impl": len(runs), "correspondence_mismatches": len(mism), "oracle_failures": len(fails),
        })
    finally:
        for r in runs:
            r["t"].remove()
    ctx.assumptions += ["checks run as uid %d; chown to 1234:5678 requires root (otherwise the owner scenarios degrade to the caller's ids)" % os.getuid(),
                        "kernel semantics of chown/chmod/rename as abstracted in Fs.v"]
