"""C01 — files differing only in build-time metadata normalise to identical bytes."""
import datetime
import random
import struct
import zlib

import handler_diff as hd
import pymarshal as pm
from framework import Case, coq_property, write_replay

import C03
import C04
import C06

EPOCHS = [315532800, 946684801, 1577836800, 1704106800, 2000000001]      # inside the DOS range so that every handler accepts them
VERS = sorted(pm.VERSIONS)


# ------------------------------------------------------------------ per-format artefacts: build(content, nd)
def later(rng, epoch, hi):
    """A timestamp strictly later than the epoch (and below hi)."""
    return min(hi - 1, epoch + rng.choice([1, 2, 3, 59, 3600, 86400, 10 ** 6, 10 ** 8, rng.randrange(1, 10 ** 7)]))


def gz_build(content, nd):
    flg, payload, name, level = content
    hdr = bytes([31, 139, 8, flg]) + struct.pack("<I", nd["mtime"]) + bytes([content[3] and 2 or 0, 3])
    if flg & 4:
        hdr += struct.pack("<H", 4) + b"ab\x00\x00"
    if flg & 8:
        hdr += name + b"\0"
    if flg & 16:
        hdr += b"a comment\0"
    if flg & 2:
        hdr += struct.pack("<H", zlib.crc32(hdr) & 0xFFFF)
    co = zlib.compressobj(level or 6, zlib.DEFLATED, -15)
    body = co.compress(payload) + co.flush()
    return hdr + body + struct.pack("<II", zlib.crc32(payload), len(payload) & 0xFFFFFFFF)


def gz_pairs(rng, n):
    out = []
    for i in range(n):
        epoch = rng.choice(EPOCHS + [0, 1, 2 ** 31, 2 ** 32 - 2])
        flg = rng.choice([0, 8, 8, 4, 16, 12, 28, 1]) | (2 if i % 6 == 5 else 0)
        content = (flg, rng.randbytes(rng.choice([0, 5, 300])) * rng.choice([1, 4]), rng.choice([b"a.txt", b"dir.tar", b""]), rng.choice([1, 6, 9]))
        k = 1 + rng.randrange(3)
        nds = [{"mtime": later(rng, epoch, 2 ** 32)} for _ in range(k + 1)]
        if rng.random() < 0.2:
            nds[0]["mtime"] = 2 ** 32 - 1
        out.append(("gzip", epoch, [gz_build(content, nd) for nd in nds], ["gzip", "flg%d" % flg] + (["fhcrc"] if flg & 2 else []), None))
    return out


def ar_build(content, nd):
    parts = [C04.MAGIC]
    k = 0
    for m in content:
        kind, name, mode, data = m
        if kind == "longnames":
            parts.append(C04.header("//", "", "", "", "", len(data)) + data + (b"\n" if len(data) % 2 else b""))     # GNU ar leaves these fields blank
            continue
        mt, uid, gid = nd[k]
        k += 1
        parts.append(C04.header(name, mt, uid, gid, mode, len(data)) + data + (b"\n" if len(data) % 2 else b""))
    return b"".join(parts)


def ar_pairs(rng, n):
    out = []
    for i in range(n):
        epoch = rng.choice(EPOCHS + [0, 1, 999, 10 ** 11])
        content = []
        if rng.random() < 0.4:
            content.append(("symtab", b"/", "0", rng.randbytes(rng.choice([4, 7, 20]))))
        if rng.random() < 0.3:
            content.append(("longnames", b"//", "", b"a_very_long_member_name.o/\nanother_quite_long_name.o/\n"))
        for j in range(rng.choice([0, 1, 2, 3, 7])):
            st = rng.random()
            data = rng.randbytes(rng.choice([0, 1, 2, 9, 64]))
            if st < 0.6:
                name = b"m%d.o/" % j
            elif st < 0.8:
                name = b"/%d" % rng.randrange(30)
            else:
                ext = b"bsd_long_name_%d.o" % j
                name, data = b"#1/%d" % len(ext), ext + data
            content.append(("member", name, rng.choice(["100644", "100755", "644"]), data))
        nm = sum(1 for m in content if m[0] != "longnames")

        def nd():
            r = []
            for _ in range(nm):
                ids = rng.choice([(0, 0), (0, 425), (1000, 0), (1000, 1000), (65534, 7), (rng.randrange(10 ** 6), rng.randrange(10 ** 6))])
                r.append((later(rng, epoch, 10 ** 12), ids[0], ids[1]))
            return r
        out.append(("ar", epoch, [ar_build(content, nd()) for _ in range(2 + rng.randrange(2))], ["ar", "members%d" % nm], None))
    return out


UT = lambda t, central: struct.pack("<HHBI", 0x5455, 5, 1, t) if central else struct.pack("<HHBII", 0x5455, 9, 3, t, t - 100)
UX = lambda u, g: struct.pack("<HHBBIBI", 0x7875, 11, 1, 4, u, 4, g)
UX_OLD = lambda t, u, g: struct.pack("<HHIIHH", 0x5855, 12, t, t, u & 0xFFFF, g & 0xFFFF)


def zip_build(content, nd):
    local, central = b"", b""
    for m, (t, extra_kind, uid, gid) in zip(content, nd):
        name, flags, method, data, cdata, system, ext = m
        dt = datetime.datetime.utcfromtimestamp(t)
        date, time = C03.dos_words(dt.year, dt.month, dt.day, dt.hour, dt.minute, dt.second)
        el = {0: b"", 1: UT(t, False), 2: UT(t, False) + UX(uid, gid), 3: UX_OLD(t, uid, gid)}[extra_kind]
        ec = {0: b"", 1: UT(t, True), 2: UT(t, True) + UX(uid, gid), 3: b""}[extra_kind]
        crc = zlib.crc32(data)
        off = len(local)
        local += struct.pack("<4sHHHHHIIIHH", b"PK\x03\x04", 20, flags, method, time, date, crc, len(cdata), len(data), len(name), len(el)) + name + el + cdata
        central += struct.pack("<4sHHHHHHIIIHHHHHII", b"PK\x01\x02", (system << 8) | 30, 20, flags, method, time, date, crc, len(cdata), len(data), len(name), len(ec), 0, 0, 0, ext, off) + name + ec
    n = len(content)
    return local + central + struct.pack("<4sHHHHIIH", b"PK\x05\x06", 0, 0, n, n, len(central), len(local), 0)


def zip_pairs(rng, n):
    out = []
    for i in range(n):
        epoch = rng.choice(EPOCHS)
        content = []
        for j in range(rng.choice([1, 2, 3, 6])):
            kind = rng.choice(["file", "file", "dir", "symlink", "empty"])
            name, flags = rng.choice([(b"a%d.txt" % j, 0), (b"dir/sub/b%d.bin" % j, 0), (("zażółć%d.txt" % j).encode(), 0x800), (b"f\x82\x8a%d.txt" % j, 0)])
            if kind == "dir":
                name = name.split(b".")[0] + b"/"
            data = b"" if kind in ("dir", "empty") else (b"target" if kind == "symlink" else rng.randbytes(rng.choice([1, 10, 300])) * rng.choice([1, 5]))
            method = 0 if kind != "file" or rng.random() < 0.3 else 8
            if method == 8:
                co = zlib.compressobj(6, zlib.DEFLATED, -15)
                cdata = co.compress(data) + co.flush()
            else:
                cdata = data
            system = rng.choice([3, 3, 0])
            # a mode with permission bits only (no file-type bits) is what zipfile.writestr() and several other writers store
            mode = {"file": rng.choice([0o100644, 0o100755, 0o600, 0o755, 0o104755]), "dir": 0o40755, "empty": rng.choice([0o100644, 0o644]), "symlink": 0o120777}[kind]
            ext = (mode << 16) if system == 3 else 0
            content.append((name, flags, method, data, cdata, system, ext))

        def later_dos():
            t = later(rng, epoch, C03.DOS_HI)
            return t if t - t % 2 > epoch else t + 2        # later than the epoch on the 2-second DOS grid too

        # every fourth group: an archive written during the build (file mtime later than the epoch) whose members are all
        # old - nothing to clamp, but the builder's ids and access times in the extra fields still have to go
        old = i % 4 == 3 and epoch - 200 >= C03.DOS_LO
        told = [max(C03.DOS_LO, (epoch - rng.choice([2, 86400, 10 ** 7])) // 2 * 2) for _ in content]

        def nd():
            if old:
                return [(told[j], rng.choice([1, 2, 3]), rng.choice([0, 1000, 65534]), rng.choice([0, 100, 1000])) for j in range(len(content))]
            return [(later_dos(), rng.randrange(4), rng.choice([0, 1000, 65534]), rng.choice([0, 100, 1000])) for _ in content]
        handler = rng.choice(["zip", "jar"])
        out.append((handler, epoch, [zip_build(content, nd()) for _ in range(2 + rng.randrange(2))], ["zip", "members%d" % len(content)] + (["old-members"] if old else []), epoch + 5))
    return out


def jd_build(content, nd):
    eol, lines = content
    out = []
    k = 0
    for kind, text in lines:
        if kind == "stamp":
            ver, date = nd["stamps"][k % len(nd["stamps"])]
            k += 1
            out.append(text % ("<!-- Generated by javadoc (%s) on %s -->" % (ver, date)))
        elif kind == "stamp-bare":
            out.append(text % ("<!-- Generated by javadoc on %s -->" % nd["stamps"][0][1]))
        elif kind == "meta":
            out.append(text % nd["date"])
        else:
            out.append(text)
    return (eol.join(out) + eol).encode()


def jd_pairs(rng, n):
    out = []
    for i in range(n):
        epoch = rng.choice(EPOCHS)
        ed = datetime.datetime.utcfromtimestamp(epoch).date()
        eol = rng.choice(["\n", "\n", "\r\n"])
        lines = [("t", "<!DOCTYPE HTML>"), ("t", '<html lang="en">'), ("t", "<head>")]
        lines.append(rng.choice([("stamp", "%s"), ("stamp", "%s"), ("stamp-bare", "%s"), ("stamp", "<title>x</title>%s<!-- kept -->")]))
        lines.append(("t", "<title>Foo (API)</title>"))
        if rng.random() < 0.8:
            lines.append(rng.choice([("meta", '<meta name="dc.created" content="%s">'), ("meta", '<meta name="date" content="%s">'), ("meta", '<META NAME="date" CONTENT="%s">'),
                                     ("meta", '<meta name="keywords" content="k"><meta name="dc.created" content="%s"><link rel="x">')]))
        if rng.random() < 0.3:
            lines.insert(rng.randrange(2, len(lines)), ("t", '<meta http-equiv="Content-Type" content="text/html; charset=UTF-8">'))
        r = rng.random()
        if r < 0.2:
            lines += [("meta", '<meta name="dc.created" content="%s"></head>')]                       # compact head: the tag shares the line that ends the header
        elif r < 0.3:
            lines += [("stamp", "%s</head>")]
        elif r < 0.45:
            while len(lines) < 14:
                lines.append(("t", '<link rel="stylesheet" type="text/css" href="s%d.css">' % len(lines)))
            lines = lines[:14] + [rng.choice([("meta", '<meta name="date" content="%s">'), ("stamp", "%s")]), ("t", "</head>")]   # on line 15, the last one looked at
        else:
            lines += [("t", "</head>")]
        lines += [("t", "<body>"), ("t", "<p>generated text zażółć</p>"), ("t", "</body>"), ("t", "</html>")]
        content = (eol, lines)

        def nd():
            d = ed + datetime.timedelta(days=rng.choice([1, 2, 30, 400, 4000]))
            ver = rng.choice(["17.0.9", "21", "1.8.0_392", "11.0.21-internal"])
            dd = rng.choice(["Tue Mar 05 10:11:12 UTC 2024", "Sat Jan 1 00:00:00 CET 2000", "2031-01-01"])
            return {"stamps": [(ver, dd)], "date": d.strftime("%Y-%m-%d")}
        out.append(("javadoc", epoch, [jd_build(content, nd()) for _ in range(2 + rng.randrange(2))], ["javadoc", "eol" + repr(eol)], None))
    return out


def twin(v):
    """A structurally equal copy made of fresh objects (marshalled separately, with flags of its own)."""
    k = v[0]
    if k == "seq":
        return ("seq", v[1], tuple(twin(x) for x in v[2]))
    if k == "dict":
        return ("dict", tuple(twin(x) for x in v[1]))
    if k == "slice":
        return ("slice",) + tuple(twin(x) for x in v[1:])
    if k == "code":
        return ("code", tuple(v[1]), tuple(twin(x) for x in v[2]))
    return tuple(v)


def pyc_pairs(rng, n):
    out = []
    for i in range(n):
        ver = VERS[i % len(VERS)]
        for _attempt in range(20):
            v = pm.gen_value(rng, ver)
            if i % 3 == 0:
                # equal objects stored twice (the same constant in two functions): whether they are merged must not depend on the flags
                if ver >= (3, 14) and i % 2 == 0:
                    leaves = [("single", b"N"), ("int", struct.pack("<i", 1)), ("int", struct.pack("<i", 2))]
                    v = ("slice", rng.choice(leaves), rng.choice(leaves), rng.choice(leaves))
                v = ("seq", b"(", (v, twin(v), ("seq", b"(", (twin(v),))))
            datas = [pm.header(ver) + pm.dumps(v, ver, rng, p) for p in rng.sample([0.0, 0.2, 0.5, 0.8, 1.0], 3)]
            if max(len(d) for d in datas) <= 20000:
                break
        out.append(("pyc", None, datas, ["pyc", "%d.%d" % ver, v[0]], None))
    return out


def cli_epochs(ctx):
    """Two builds of one small tree (gzip, ar, javadoc page) that differ only in time stamps and ids, through the command line
    with the epochs at the edges of what $SOURCE_DATE_EPOCH may hold: 0, 1 and a date later than today's.  Serial and -j2."""
    import fscommon as fc
    import fsharness as fh
    from framework import build_cli
    okc, outc = build_cli(release=False)
    ctx.oblige("build: the command-line tool builds from /repo's current tree", okc, outc[-400:])
    if not okc:
        return [], 0
    fails, n = [], 0

    def page(day, stamp):
        return ("<!DOCTYPE HTML>\n<html lang=\"en\">\n<head>\n<!-- Generated by javadoc (21) on %s -->\n<title>T</title>\n"
                "<meta name=\"dc.created\" content=\"%s\">\n</head>\n<body>\ntext\n</body>\n</html>\n" % (stamp, day)).encode()

    for epoch in (0, 1, hd.FUTURE_EPOCH):
        late = epoch >= hd.FUTURE_EPOCH
        builds = []
        for k, (mt, uid, gid, day, stamp) in enumerate([(4100000000 if late else 1700000000, 1000, 425, "2099-03-02" if late else "2024-03-02", "Sat Mar 02 16:07:41 UTC 2024"),
                                                         (4200000000 if late else 1711111111, 0, 7, "2099-05-06" if late else "2024-05-06", "Mon May 06 09:10:11 CEST 2024")]):
            builds.append({"data.gz": fc.gz(mt, b"the same payload"), "libdemo.a": fc.ar([("one.o/", mt, uid, gid, 100644, b"abc"), ("two.o/", mt + 5, gid, uid, 100755, b"defg")]),
                           "page.html": page(day, stamp)})
        for jobs in ([], ["-j2"]):
            t = fh.Tree()
            try:
                for k, b in enumerate(builds):
                    for name, data in b.items():
                        t.add_file("build%d/%s" % (k, name), data, mtime_ns=1_650_000_000_000_000_000)
                rc, out = fh.run_cli(jobs + [t.path("build0"), t.path("build1")], epoch=epoch, timeout=60)
                n += 1
                label = "%s SOURCE_DATE_EPOCH=%d" % (" ".join(jobs) or "serial", epoch)
                for name in builds[0]:
                    a, b = open(t.path("build0/" + name), "rb").read(), open(t.path("build1/" + name), "rb").read()
                    if a != b:
                        fails.append(("cli-variants-differ", "%s: the two builds of %s, differing only in time stamps and ids, are still different after the run (exit %d)" % (label, name, rc), label, epoch, name, builds))
                        break
            finally:
                t.remove()
    return fails, n


def run(ctx):
    rng = random.Random(ctx.seed)
    coq_property(ctx)
    if not hd.prepare(ctx):
        return
    n = 40 if ctx.tier == "quick" else 500
    groups = gz_pairs(rng, n) + ar_pairs(rng, n) + zip_pairs(rng, n) + jd_pairs(rng, n) + pyc_pairs(rng, n + n // 2)
    cases = []
    members = []
    for gi, (handler, epoch, datas, tags, fmtime) in enumerate(groups):
        ids = []
        for vi, d in enumerate(datas):
            cid = "g%dv%d" % (gi, vi)
            cases.append(Case(cid, handler, epoch, d, tags=tags, mtime=fmtime))
            ids.append(cid)
        members.append(ids)
    impl, model, mism = hd.differential(ctx, cases, "variant groups, all handlers")
    by_id = {c.cid: c for c in cases}
    known = hd.known_kinds_for("C01")
    fails, known_seen = [], {}
    nontrivial = 0
    by_fmt = {}
    for ids in members:
        rs = [impl.get(i) for i in ids]
        c0 = by_id[ids[0]]
        if any(r is None for r in rs):
            continue
        distinct_inputs = len({by_id[i].data for i in ids})
        if distinct_inputs > 1:
            nontrivial += 1
            by_fmt[c0.handler] = by_fmt.get(c0.handler, 0) + 1
        outs = {r[1] for r in rs}
        classes = {r[0] for r in rs}
        if len(outs) > 1 or classes - {"Replaced", "Noop"}:
            if "fhcrc" in c0.tags and len(outs) > 1:
                kind = "hcrc-stale"
                msg = "gzip members with FHCRC that differ only in MTIME (header CRC16 as a gzip writer computes it) keep different stored CRC16s"
            elif len(outs) > 1:
                kind, msg = "variants-differ:" + c0.handler, "%d variants of one %s artefact (differing only in nondeterministic metadata) are rewritten to %d different files" % (len(ids), c0.handler, len(outs))
            else:
                kind, msg = "variant-not-processed:" + c0.handler, "a variant was not processed normally: classes %s" % sorted(classes)
            if kind in known:
                known_seen.setdefault(kind, (c0, msg))
            else:
                fails.append((ids, kind, msg))
    cfails, ncli = cli_epochs(ctx)
    ctx.coverage["cli_epoch_runs"] = ncli
    for kind, msg, label, epoch, name, builds in cfails[:1]:
        d = write_replay(ctx, kind, {"build0-" + name: builds[0][name], "build1-" + name: builds[1][name]},
                         {"failure": msg, "kind": kind, "case": label, "epoch": epoch,
                          "how_to_replay": "put build0-<name> and build1-<name> as <name> into two directories; SOURCE_DATE_EPOCH=<epoch> add-determinism [-j2] dir0 dir1; cmp"})
        ctx.violations.append({"replay": d, "kind": kind, "msg": msg})
    for kind, (c, msg) in known_seen.items():
        ctx.known.append("%s: %s [e.g. group of case %s: %s]" % (known[kind]["id"], known[kind]["what"], c.cid, msg))
    seen = set()
    for ids, kind, msg in fails:
        if kind in seen:
            continue
        seen.add(kind)
        files = {}
        for i in ids:
            c = by_id[i]
            files["variant_%s.%s" % (i, c.handler)] = c.data
            files["output_%s.%s" % (i, c.handler)] = impl[i][1]
        c = by_id[ids[0]]
        d = write_replay(ctx, kind, files, {"handler": c.handler, "epoch": c.epoch, "file_mtime": c.mtime, "failure": msg, "kind": kind, "tags": c.tags,
                                            "how_to_replay": "copy every variant_* to a scratch dir with the handler's extension; SOURCE_DATE_EPOCH=<epoch> add-determinism --handler <handler> <files>; cmp the results"})
        ctx.violations.append({"replay": d, "kind": kind, "msg": msg})
    ctx.coverage.update({
        "evaluations": len(cases),
        "distinct_nontrivial": nontrivial,
        "rule": "groups of 2-4 variants of one artefact per format (gzip: MTIME; ar: per-member mtime/uid/gid incl. exactly one id zero; zip/jar: DOS times, extended-timestamp and "
                "Unix-id extra fields present/absent/different in local and central headers; javadoc: stamp version/date, date and dc.created values, LF/CRLF; pyc 3.4-3.14: which "
                "never-referenced objects carry FLAG_REF), every perturbed timestamp later than the epoch; all variants run through implementation and extracted model; "
                "non-trivial = groups whose inputs really differ",
        "samples": [{"handler": by_id[ids[0]].handler, "epoch": by_id[ids[0]].epoch, "tags": list(by_id[ids[0]].tags), "variant_lengths": [len(by_id[i].data) for i in ids],
                     "classes": [impl[i][0] for i in ids if i in impl]} for ids in members[:: max(1, len(members) // 5)][:5]],
        "groups": len(members), "groups_by_format": by_fmt,
        "correspondence_mismatches": len(mism), "oracle_failures_not_known": len(fails),
    })
    ctx.assumptions += ["variants are produced by this check's own writers for each format (DESIGN.md section 5-C01 lists the perturbed fields)"]
