"""C07 — processing is idempotent: a second run changes and reports nothing."""
import os
import random

import fsharness as fh
import fscommon as fc
import handler_diff as hd
import samples
from framework import Case, coq_property, build_cli, write_replay

import C02
import C03
import C04
import C05
import C06
import C18


def first_round(rng, tier):
    cases = []
    sub = "quick"
    for mod in (C05, C04, C06, C18):
        cs = mod.gen_cases(rng, sub)
        cases += cs[:: 2 if tier == "quick" else 1]
    cs, _ = C02.gen_cases(rng, sub)
    cases += cs[:: 2 if tier == "quick" else 1]
    cs, _ = C03.gen_cases(rng, sub)
    cases += cs
    # unique ids
    out = []
    for i, c in enumerate(cases):
        out.append(Case("r%d" % i, c.handler, c.epoch, c.data, check=False, nlink=c.nlink, mtime=c.mtime, tags=c.tags))
    return out


def tree_runs(ctx, fails):
    """run; run; --check on a tree, serial and parallel: the second run reports 0 modified and touches nothing."""
    res = []
    # a negative $SOURCE_DATE_EPOCH is ignored: by a serial run, by the controller and by every worker alike
    ALLSEL = "ar,jar,javadoc,gzip,pyc,pyc-zero-mtime,zip"      # the opt-in handler too: the byte-compiled file is then matched by two handlers
    for first, second, epoch, sel in (([], [], samples.EPOCH, None), (["-j3"], [], samples.EPOCH, None), ([], ["-j3"], samples.EPOCH, None), (["-j2"], ["-j4"], samples.EPOCH, None),
                                      ([], ["-j2"], -86400, None), (["-j2"], [], samples.EPOCH, ALLSEL), ([], ["-j2"], samples.EPOCH, ALLSEL)):
        selarg = ["--handler", sel] if sel else []
        first, second = first + selarg, second + selarg
        t = fh.Tree()
        try:
            for n, (data, hs) in samples.per_handler().items():
                t.add_file("t/" + n, data, mtime_ns=1_650_000_000_000_000_000)
                t.add_file("t/sub/again-" + n, data, mtime_ns=1_650_000_000_000_000_123)
            t.add_file("t/hl.gz", fc.gz(1700000000))
            t.link("t/hl.gz", "t/sub/hl2.gz")
            t.add_file("t/bad.gz", b"not gzip")
            # leftovers of an interrupted earlier run, longer than what is written now
            for n, (data, hs) in list(samples.per_handler().items())[::2]:
                t.add_file("t/.#." + n + ".tmp", b"left over " * ((len(data) + 8192) // 10 + 1), mode=0o600)
            rc1, out1 = fh.run_cli(first + [t.path("t")], epoch=epoch, timeout=120)
            s1 = fh.parse_summary(out1)
            mid = fh.snapshot(t.root, with_dir_mtime=False)        # a directory's own mtime may move (the hidden temp file comes and goes)
            rc2, out2 = fh.run_cli(second + [t.path("t")], epoch=epoch, timeout=120)
            s2 = fh.parse_summary(out2)
            after = fh.snapshot(t.root, with_dir_mtime=False)
            rc3, out3 = fh.run_cli(["--check"] + [a for a in second if a.startswith("-j")] + ["--handler=" + ALLSEL.replace("gzip,", "") if sel else ("--handler=-gzip" if epoch >= 0 else "--handler=-gzip,-zip,-jar")] + [t.path("t")], epoch=epoch, timeout=120)   # zip and jar cannot be asked for by name without an epoch   # bad.gz is unsupported: leave gzip out of the verdict
            s3 = fh.parse_summary(out3)
            label = "run %s; run %s; --check%s" % (" ".join(first) or "serial", " ".join(second) or "serial", "" if epoch == samples.EPOCH else " (SOURCE_DATE_EPOCH=%d)" % epoch)
            res.append({"case": label, "first": s1, "second": s2, "check_exit": rc3})
            if s1 is None or s1["modified"] == 0:
                fails.append(("first-run-idle", "%s: the first run modified nothing (%s)" % (label, s1), label))
            if s2 is None or s2["modified"] != 0:
                fails.append(("second-run-modifies", "%s: the second run reports %s" % (label, s2), label))
            d = fh.snap_equal(mid, after)
            if d:
                fails.append(("second-run-touches", "%s: the second run changed bytes, inode or mtime: %s" % (label, "; ".join(d[:4])), label))
            if rc3 != 0 or (s3 is not None and s3["modified"] != 0):
                fails.append(("check-after-run-fails", "%s: --check after two runs exits %d (%s)" % (label, rc3, s3), label))
        finally:
            t.remove()
    return res


def run(ctx):
    rng = random.Random(ctx.seed)
    coq_property(ctx)
    if not hd.prepare(ctx):
        return
    ok2, out2 = build_cli()
    ctx.oblige("build: CLI builds from /repo's current tree", ok2, out2[-500:])
    cases1 = first_round(rng, ctx.tier)
    impl1, model1, mism1 = hd.differential(ctx, cases1, "first run, all handlers")
    # second round: the implementation's own outputs, same parameters
    cases2 = []
    for c in cases1:
        r = impl1.get(c.cid)
        if r and r[0] in ("Replaced", "Rewritten"):
            cases2.append(Case("s" + c.cid, c.handler, c.epoch, r[1], check=False, nlink=c.nlink, mtime=c.mtime, tags=c.tags))
    impl2, model2, mism2 = hd.differential(ctx, cases2, "second run on the outputs of the first")
    fails = []
    for c in cases2:
        r = impl2.get(c.cid)
        if r is None:
            continue
        if r[0] != "Noop" or r[1] != c.data:
            fails.append((c, r, "second-run-not-noop", "handler %s: the second run on its own output reports %s%s" % (c.handler, r[0], "" if r[1] == c.data else " and changes bytes")))
    tfails = []
    tres = tree_runs(ctx, tfails) if ok2 else []
    known = hd.known_kinds_for("C07")
    seen = set()
    for c, r, kind, msg in fails:
        k = kind + ":" + c.handler
        if k in seen:
            continue
        seen.add(k)
        d = write_replay(ctx, k, {"input." + fc.EXT.get(c.handler, "bin"): c.data, "after_second_run." + fc.EXT.get(c.handler, "bin"): r[1]},
                         {"handler": c.handler, "epoch": c.epoch, "file_mtime": c.mtime, "failure": msg, "kind": kind, "tags": c.tags,
                          "how_to_replay": "input.* is the tool's own output of a first run; SOURCE_DATE_EPOCH=<epoch> add-determinism --handler <handler> input.*  must report 0 modified"})
        ctx.violations.append({"replay": d, "kind": kind, "msg": msg})
    for kind, msg, label in tfails:
        if kind in seen:
            continue
        seen.add(kind)
        d = write_replay(ctx, kind, {}, {"failure": msg, "kind": kind, "case": label, "how_to_replay": "tree with one dirty file per handler twice, a hard-linked gz and a bad gz (lib/props/C07.py:tree_runs)"})
        ctx.violations.append({"replay": d, "kind": kind, "msg": msg})
    by_h = {}
    for c in cases2:
        by_h[c.handler] = by_h.get(c.handler, 0) + 1
    ctx.coverage.update({
        "evaluations": len(cases1) + len(cases2) + 3 * len(tres),
        "distinct_nontrivial": len(cases2),
        "rule": "the generated inputs of C02 (pyc), C03 (zip/jar), C04 (ar), C05 (gzip), C06 (javadoc), C18 (pyc-zero-mtime) are run once; every output the implementation modified is run "
                "again with the same settings (implementation and model): it must be reported unchanged and be byte-identical; plus trees run twice and then --check, in the four "
                "serial/parallel combinations, comparing bytes, inode and ns mtime of every file and directory after the second run; non-trivial = outputs of modifying first runs",
        "samples": [{"handler": c.handler, "tags": list(c.tags)[:3], "len": len(c.data)} for c in cases2[:: max(1, len(cases2) // 4)][:4]],
        "second_round_by_handler": by_h, "tree_runs": tres,
        "correspondence_mismatches": len(mism1) + len(mism2), "oracle_failures_not_known": len(fails) + len(tfails),
    })
