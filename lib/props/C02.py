"""C02 — a rewritten .pyc unmarshals to the same object tree for its Python version."""
import glob
import marshal
import os
import random
import struct

from framework import Case, coq_property, REPO
import handler_diff as hd
import pymarshal as pm

VERS = sorted(pm.VERSIONS)


def corpus_files(tier, rng):
    files = sorted(glob.glob(os.path.join(REPO, "tests/cases/python_stdlib/*/*.pyc")) + glob.glob(os.path.join(REPO, "tests/cases/*.pyc")), key=os.path.getsize)
    small = [f for f in files if os.path.getsize(f) < 6000]
    mid = [f for f in files if 6000 <= os.path.getsize(f) < 40000]
    if tier == "quick":
        return rng.sample(small, min(60, len(small))) + rng.sample(mid, min(10, len(mid)))
    return small + mid + files[-4:]


def gen_cases(rng, tier):
    cases = []
    meta = {}
    n = 0

    def add(data, tags, ver=None, value=None):
        nonlocal n
        n += 1
        cid = "m%d" % n
        cases.append(Case(cid, "pyc", None, data, nlink=rng.choice([1, 1, 2]), tags=tags))
        meta[cid] = (ver, value)

    for f in corpus_files(tier, rng):
        add(open(f, "rb").read(), ["corpus", os.path.basename(os.path.dirname(f))])
    count = 350 if tier == "quick" else 5000
    for i in range(count):
        ver = VERS[i % len(VERS)]
        flag_prob = rng.choice([0.0, 0.2, 0.5, 1.0])
        for _attempt in range(20):
            v = pm.gen_value(rng, ver)
            payload = pm.dumps(v, ver, rng, flag_prob)
            if len(payload) <= (20000 if i % 25 else 150000):
                break
        tags = ["gen", "%d.%d" % ver, "flags%.1f" % flag_prob, v[0]]
        if rng.random() < 0.1:
            payload += rng.randbytes(rng.choice([1, 4, 30]))
            tags.append("trailing-garbage")
        add(pm.header(ver, flags=rng.choice([0, 0, 1, 2])) + payload, tags, ver, v)
    # boundary lengths
    for ver in ((3, 6), (3, 11), (3, 14)):
        for ln in (0, 1, 255, 256, 257):
            v = ("seq", b"(", tuple(("int", bytes([k % 256, 0, 0, 0])) for k in range(ln)))
            add(pm.header(ver) + pm.dumps(v, ver, rng, 0.3), ["tuple%d" % ln, "%d.%d" % ver], ver, v)
        for ln in (255, 256, 65535, 65536):
            v = ("seq", b"(", (("str", b"a", b"x" * ln), ("str", b"s", b"y" * ln)))
            add(pm.header(ver) + pm.dumps(v, ver, rng, 0.3), ["strlen%d" % ln, "%d.%d" % ver], ver, v)
    # near-duplicates: objects that differ in exactly one place must not be merged by the writer's de-duplication
    def near_dup(ver, v, w, tag):
        both = ("seq", b"(", (v, w, v, w, ("seq", b"(", (w, v))))
        payload = pm.dumps(both, ver, rng, rng.choice([0.0, 0.5, 1.0]))
        if len(payload) <= 30000:
            add(pm.header(ver) + payload, ["near-dup", "%d.%d" % ver, tag], ver, both)

    reps = 2 if tier == "quick" else 30
    for ver in VERS:
        for kind in range(6):
            for _ in range(reps):
                if kind == 0:
                    v = ("complex", struct.pack("<dd", rng.choice([0.0, 1.5, -2.0]), rng.choice([0.0, -0.0, 3.25])))
                elif kind == 1:
                    v = ("float", struct.pack("<d", rng.choice([0.0, -0.0, 1.0, 1e100])))
                elif kind == 2:
                    v = ("long", rng.choice([2 ** 31, -2 ** 40, 2 ** 15, 2 ** 64 + 1]))
                else:
                    for _attempt in range(20):
                        v = pm.gen_value(rng, ver, rng.choice([0, 2, 3]))
                        if v[0] != "single":
                            break
                near_dup(ver, v, mutate_one(rng, v), v[0])
    # code objects that agree in every field but one, for each field in turn (two lambdas on one line differ in co_names only, ...)
    for ver in VERS:
        lay = pm.code_layout(ver)
        nint, nobj = sum(1 for f in lay if f == "i"), sum(1 for f in lay if f == "o")
        ints = tuple(struct.pack("<I", 3 + j) for j in range(nint))
        objs = tuple(("seq", b"(", (("str", b"z", b"field%d" % j), ("int", struct.pack("<i", j)))) if j % 2 else ("str", b"s", b"bytes-of-field-%d" % j) for j in range(nobj))
        base = ("code", ints, objs)
        for j in range(nint):
            near_dup(ver, base, ("code", ints[:j] + (struct.pack("<I", 77),) + ints[j + 1:], objs), "code-int-field%d" % j)
        for j in range(nobj):
            other = ("seq", b"(", (("str", b"z", b"other%d" % j),)) if j % 2 else ("str", b"s", b"other-bytes-%d" % j)
            near_dup(ver, base, ("code", ints, objs[:j] + (other,) + objs[j + 1:]), "code-obj-field%d" % j)
    # the same members in another order: element order is part of the value for every sequence kind, frozensets included
    # (an interpreter dumps a frozenset in iteration order, and two constants may hold the same strings in different orders)
    for ver in VERS:
        for code in (b"(", b">", b"[", b"<"):
            strs = tuple(("str", b"z", w) for w in (b"alpha", b"beta", b"gamma", b"delta"))
            for perm in ((2, 0, 1, 3), (3, 2, 1, 0), (1, 0, 2, 3)):
                near_dup(ver, ("seq", code, strs), ("seq", code, tuple(strs[k] for k in perm)), "permuted-" + code.decode())
            ints = tuple(("int", struct.pack("<i", k)) for k in (1, 2, 3))
            near_dup(ver, ("seq", code, ints), ("seq", code, (ints[2], ints[0], ints[1])), "permuted-" + code.decode())
    # equal twins: the same value marshalled twice as separate objects with independent flags (they may be merged, the tree must stay)
    def twin(v):
        k = v[0]
        if k == "seq":
            return ("seq", v[1], tuple(twin(x) for x in v[2]))
        if k == "dict":
            return ("dict", tuple(twin(x) for x in v[1]))
        if k == "slice":
            return ("slice",) + tuple(twin(x) for x in v[1:])
        if k == "code":
            return ("code", tuple(v[1]), tuple(twin(x) for x in v[2]))
        return tuple(v)

    for ver in VERS:
        for _ in range(3 if tier == "quick" else 40):
            for _attempt in range(20):
                v = pm.gen_value(rng, ver, rng.choice([1, 2, 3]))
                if v[0] != "single":
                    break
            both = ("seq", b"(", (v, twin(v), ("seq", b"(", (twin(v),))))
            payload = pm.dumps(both, ver, rng, rng.choice([0.0, 0.3, 0.5, 1.0]))
            if len(payload) <= 30000:
                add(pm.header(ver) + payload, ["twins", "%d.%d" % ver, v[0]], ver, both)
    for _ in range(6 if tier == "quick" else 60):
        leaves = [("single", b"N"), ("int", struct.pack("<i", 1)), ("int", struct.pack("<i", 2))]
        v = ("slice", rng.choice(leaves), rng.choice(leaves), rng.choice(leaves))
        both = ("seq", b"(", (v, twin(v), twin(v)))
        add(pm.header((3, 14)) + pm.dumps(both, (3, 14), rng, rng.choice([0.0, 0.3, 0.5, 0.7, 1.0])), ["twins", "3.14", "slice"], (3, 14), both)
    # slices (3.14): each of start/stop/step differing alone
    leaves = [("single", b"N"), ("int", struct.pack("<i", 1)), ("int", struct.pack("<i", -1)), ("int", struct.pack("<i", 2)), ("single", b"T")]
    for pos in (1, 2, 3):
        for _ in range(4 if tier == "quick" else 40):
            v = ("slice", rng.choice(leaves), rng.choice(leaves), rng.choice(leaves))
            alt = rng.choice([x for x in leaves if x != v[pos]])
            near_dup((3, 14), v, v[:pos] + (alt,) + v[pos + 1:], "slice-field%d" % pos)
    # floating-point constants are bit patterns: NaNs with sign and payload, signalling NaNs, infinities, zeros, denormals - alone,
    # as the halves of complex numbers, and twice (the writer's equality must not merge different patterns nor split equal ones)
    pats = [0x7ff8000000000000, 0xfff8000000000000, 0x7ff80000deadbeef, 0xfff0000000000001, 0x7ff0000000000001, 0x7ff4000000000000,
            0x7ff0000000000000, 0xfff0000000000000, 0x0000000000000000, 0x8000000000000000, 0x0000000000000001, 0x800fffffffffffff, 0x3ff0000000000000]
    fl = [("float", struct.pack("<Q", b)) for b in pats]
    cx = [("complex", struct.pack("<QQ", a, b)) for a, b in zip(pats, pats[1:] + pats[:1])] + [("complex", struct.pack("<QQ", b, b)) for b in pats[:4]]
    for ver in ((3, 4), (3, 9), (3, 12), (3, 14)):
        top = ("seq", b"(", tuple(fl + cx + [tuple(x) for x in fl[:6]] + [tuple(x) for x in cx[:4]]))
        for fp in (0.0, 0.5, 1.0):
            add(pm.header(ver) + pm.dumps(top, ver, rng, fp), ["float-patterns", "%d.%d" % ver, "flags%.1f" % fp], ver, top)
    # objects larger than any plausible buffer
    bigs = ("str", b"s", bytes((k * 7) % 256 for k in range(200001)))
    bigu = ("str", b"u", b"\xc3\xa9" * 70001)
    bigt = ("seq", b"(", tuple(("int", struct.pack("<i", k)) for k in range(8000)))
    for ver in ((3, 8), (3, 12)):
        top = ("seq", b"[", (bigs, bigu, bigt, bigs, ("seq", b"(", (bigu, bigt))))
        add(pm.header(ver) + pm.dumps(top, ver, rng, 0.5), ["big-objects", "%d.%d" % ver], ver, top)
    # a flagged object of every kind ahead of shared objects: the numbering of all later references depends on its slot
    def leading(ver):
        ints = [struct.pack("<i", k) for k in range(300)]
        items256 = tuple(("int", ints[k]) for k in range(256))
        yield "tuple256", ("seq", b"(", items256)
        yield "tuple255", ("seq", b"(", items256[:255])
        yield "tuple0", ("seq", b"(", ())
        yield "list", ("seq", b"[", items256[:3])
        yield "frozenset", ("seq", b">", items256[:2])
        yield "set", ("seq", b"<", items256[:2])
        yield "dict", ("dict", (("str", b"u", b"k"), ("int", ints[7])))
        for c in (b"s", b"t", b"u", b"a", b"A"):
            yield "str-" + c.decode(), ("str", c, b"text" * 70)
        for c in (b"z", b"Z"):
            yield "str-" + c.decode(), ("str", c, b"short")
        yield "int", ("int", ints[5])
        yield "long", ("long", 2 ** 70 + 3)
        yield "float", ("float", struct.pack("<d", 2.5))
        yield "complex", ("complex", struct.pack("<dd", 1.0, -2.0))
        if ver >= (3, 14):
            yield "slice", ("slice", ("int", ints[1]), ("single", b"N"), ("int", ints[2]))
        for _attempt in range(50):
            v = pm.gen_value(rng, ver, 1)
            if v[0] == "code":
                yield "code", v
                break

    for ver in ((3, 4), (3, 8), (3, 11), (3, 12), (3, 14)):
        for tag, lead in leading(ver):
            shared = ("str", b"u", b"shared " + tag.encode())
            other = ("seq", b"(", (("int", struct.pack("<i", 9)), shared))
            top = ("seq", b"[", (lead, shared, other, shared, ("seq", b"(", (other, lead))))
            for fp in (1.0, 0.0):
                add(pm.header(ver) + pm.dumps(top, ver, rng, fp), ["flagged-lead", tag, "%d.%d" % ver, "flags%.1f" % fp], ver, top)
    # versions the tool leaves alone: every release magic before 3.4, with a payload that 3.4+ rules would rewrite
    for magic in (62211, 3000, 3131, 3141, 3151, 3160, 3180, 3190, 3210, 3220, 3230):
        hdr = bytes([magic & 255, magic >> 8]) + b"\r\n" + b"\0" * (8 if magic >= 3190 else 4)
        add(hdr + b"N", ["too-old"])
        add(hdr + b"(\x02\x00\x00\x00(\x01\x00\x00\x00Nu\x02\x00\x00\x00ab", ["too-old", "rewritable-under-3.4-rules", "magic%d" % magic])
    return cases, meta


# magic numbers of the releases before 3.4 (CPython's importlib/_bootstrap_external.py history): 3.0, 3.1, 3.2, 3.3
OLD_MAGICS = [(3000, 3131), (3141, 3151), (3160, 3180), (3190, 3230)]


def mutate_one(rng, v):
    """A value that differs from v in exactly one place (for the writer's de-duplication: equal-looking objects must not be merged)."""
    k = v[0]
    if k == "single":
        return ("single", rng.choice([b for b in (b"N", b"F", b"T", b".") if b != v[1]]))
    if k == "int":
        b = bytearray(v[1])
        b[rng.randrange(4)] ^= 1 << rng.randrange(8)
        return ("int", bytes(b))
    if k == "long":
        return ("long", rng.choice([-v[1], v[1] + 1, v[1] ^ (1 << 15)]) or 2 ** 40)
    if k == "float":
        b = bytearray(v[1])
        b[rng.choice([0, 7])] ^= rng.choice([1, 128])
        return ("float", bytes(b))
    if k == "complex":
        b = bytearray(v[1])
        b[rng.choice([0, 7, 8, 15])] ^= rng.choice([1, 128])
        return ("complex", bytes(b))
    if k == "str":
        c, body = v[1], v[2]
        r = rng.random()
        if r < 0.4:
            groups = [b"zZ", b"aAut", b"s"]
            alt = [bytes([x]) for g in groups if c in g for x in g if bytes([x]) != c]
            if alt:
                return ("str", rng.choice(alt), body)
        if body and r < 0.7:
            b = bytearray(body)
            i = rng.randrange(len(b))
            b[i] = (b[i] ^ 1) if 32 <= (b[i] ^ 1) < 127 or c == b"s" else (b[i] - 1 if b[i] > 33 else b[i] + 1)
            return ("str", c, bytes(b))
        if len(body) < 255:
            return ("str", c, body + b"x")
        return ("str", c, body[:-1])
    if k == "seq":
        c, items = v[1], v[2]
        r = rng.random()
        if items and r < 0.6:
            i = rng.randrange(len(items))
            return ("seq", c, items[:i] + (mutate_one(rng, items[i]),) + items[i + 1:])
        if r < 0.8:
            return ("seq", b">" if c == b"(" else b"(", items)
        return ("seq", c, items + (("single", b"N"),))
    if k == "dict":
        items = v[1]
        if items:
            i = rng.randrange(len(items))
            return ("dict", items[:i] + (mutate_one(rng, items[i]),) + items[i + 1:])
        return ("dict", (("single", b"N"), ("single", b"T")))
    if k == "slice":
        i = rng.randrange(1, 4)
        return v[:i] + (mutate_one(rng, v[i]),) + v[i + 1:]
    if k == "code":
        ints, objs = v[1], v[2]
        if rng.random() < 0.4:
            i = rng.randrange(len(ints))
            b = bytearray(ints[i])
            b[0] ^= 1
            return ("code", ints[:i] + (bytes(b),) + ints[i + 1:], objs)
        i = rng.randrange(len(objs))
        return ("code", ints, objs[:i] + (mutate_one(rng, objs[i]),) + objs[i + 1:])
    raise ValueError(k)


def decode_file(data):
    """(version, header, value) via the independent CPython-rules decoder; None when not decodable."""
    if len(data) < 4 or data[2:4] != b"\r\n":
        return None
    magic = data[0] | data[1] << 8
    ver = None
    for v, (m, hl) in sorted(pm.VERSIONS.items()):
        lo = {(3, 4): 3250, (3, 5): 3320, (3, 6): 3360, (3, 7): 3390, (3, 8): 3400, (3, 9): 3420, (3, 10): 3430, (3, 11): 3450, (3, 12): 3500, (3, 13): 3550, (3, 14): 3600}[v]
        hi = {(3, 4): 3310, (3, 5): 3351, (3, 6): 3379, (3, 7): 3394, (3, 8): 3413, (3, 9): 3425, (3, 10): 3439, (3, 11): 3495, (3, 12): 3531, (3, 13): 3599, (3, 14): 3649}[v]
        if lo <= magic <= hi:
            ver, hlen = v, hl
    if ver is None or len(data) < hlen:
        return None
    try:
        val, used = pm.loads(data[hlen:], ver)
    except pm.MarshalError:
        return None
    except RecursionError:
        return None
    return ver, data[:hlen], val, used


def oracle(c, cls, after):
    x = c.data
    fails = []
    if cls.endswith("+tmp"):
        fails.append(("temp-left", "temporary file left behind"))
        cls = cls[:-4]
    if cls in ("Panic", "Abort"):
        return [("panic", "handler panicked on a stream CPython could emit")] if "gen" in c.tags or "corpus" in c.tags else [("panic", "handler panicked")]
    if (c.check or cls in ("Noop", "BadFormat", "Error")) and after != x:
        fails.append(("untouched-violated", "class %s but bytes changed" % cls))
    if len(x) >= 4 and x[2:4] == b"\r\n" and any(lo <= (x[0] | x[1] << 8) <= hi for lo, hi in OLD_MAGICS) and after != x:
        fails.append(("old-version-rewritten", "magic %d belongs to a Python release before 3.4 (no reference flags in its marshal format), yet the file was rewritten" % (x[0] | x[1] << 8)))
    d = decode_file(x)
    if d is None:
        return fails
    ver, hdr, val, used = d
    if cls in ("BadFormat", "Error"):
        if "gen" in c.tags or "corpus" in c.tags:
            fails.append(("valid-rejected", "a stream CPython %d.%d can load was rejected as %s" % (ver + (cls,))))
        return fails
    if after[:len(hdr)] != hdr:
        fails.append(("header-changed", "the pyc header changed"))
    d2 = decode_file(after)
    if d2 is None:
        fails.append(("output-undecodable", "the rewritten file cannot be unmarshalled under the rules of Python %d.%d (bad reference / type code / truncated)" % ver))
        return fails
    if d2[2] != val:
        fails.append(("tree-differs", "the rewritten payload decodes to a different object tree (Python %d.%d)" % ver))
    if ver == (3, 11):
        # cross-check with the real interpreter of the sandbox
        try:
            a = marshal.loads(x[len(hdr):])
        except Exception:
            a = None        # not a well-typed code object for the real interpreter (random field types): only the rules-level decoder applies
        if a is not None:
            try:
                b = marshal.loads(after[len(hdr):])
                if repr_tree(a) != repr_tree(b):
                    fails.append(("tree-differs-cpython", "marshal.loads (CPython 3.11) yields different objects for input and output"))
            except Exception as e:  # noqa
                fails.append(("cpython-rejects", "CPython 3.11 loads the input but not the rewritten file: %s" % e))
    return fails


def repr_tree(o):
    import types
    if isinstance(o, types.CodeType):
        return ("code",) + tuple(repr_tree(getattr(o, a)) for a in ("co_argcount", "co_posonlyargcount", "co_kwonlyargcount", "co_stacksize", "co_flags", "co_code", "co_consts",
                                                                       "co_names", "co_varnames", "co_freevars", "co_cellvars", "co_filename", "co_name", "co_qualname",
                                                                       "co_firstlineno", "co_linetable", "co_exceptiontable"))
    if isinstance(o, (tuple, list)):
        return (type(o).__name__,) + tuple(repr_tree(x) for x in o)
    if isinstance(o, frozenset):
        return ("frozenset", tuple(sorted(repr(repr_tree(x)) for x in o)))
    if isinstance(o, float):
        import struct
        return ("float", struct.pack("<d", o))
    if isinstance(o, complex):
        import struct
        return ("complex", struct.pack("<dd", o.real, o.imag))
    return (type(o).__name__, o)


def selfcheck_reference(ctx, rng):
    """Validate the independent decoder/encoder against the sandbox's CPython 3.11 on corpus files."""
    bad = []
    n = 0
    for f in sorted(glob.glob(os.path.join(REPO, "tests/cases/python_stdlib/3.11/*.pyc")))[:40]:
        data = open(f, "rb").read()
        try:
            v, used = pm.loads(data[16:], (3, 11))
            re = pm.dumps(v, (3, 11), rng, 0.3)
            if repr_tree(marshal.loads(re)) != repr_tree(marshal.loads(data[16:])):
                bad.append(os.path.basename(f))
        except Exception as e:  # noqa
            bad.append("%s: %s" % (os.path.basename(f), e))
        n += 1
    ctx.oblige("reference decoder/encoder (lib/pymarshal.py) agrees with CPython 3.11's marshal on %d corpus files" % n, not bad, "; ".join(bad[:3]))


def run(ctx):
    rng = random.Random(ctx.seed)
    coq_property(ctx)
    if not hd.prepare(ctx, release=(ctx.tier == "thorough")):
        return
    selfcheck_reference(ctx, rng)
    cases, meta = gen_cases(rng, ctx.tier)
    impl, model, mism = hd.differential(ctx, cases, "pyc")
    known = hd.known_kinds_for("C02")
    fails = hd.apply_oracle(ctx, cases, impl, oracle, known)
    hd.cli_pass(ctx, cases, impl, "pyc", "pyc")
    hd.domain_pass(ctx, cases, impl, ("pyc",), "C02_rewritten_file_rereads")
    ctx.coverage.update({
        "evaluations": len(cases),
        "distinct_nontrivial": hd.distinct_nontrivial(cases, impl),
        "rule": "marshal streams CPython could emit for 3.4 .. 3.14 (per-version code-object layouts): random DAGs of code objects, tuples (incl. 0/1/255/256/257 items), frozensets, all seven "
                "string kinds (lengths 0/1/255/256/65535/65536), ints, longs around the 15-bit digit boundaries, floats incl. -0.0/nan/inf, complex, singletons, slices (3.14); shared objects "
                "written once and back-referenced; reference flags on unreferenced objects with probability 0/0.2/0.5/1; optional trailing garbage; plus a sample of the repository's stdlib corpus; "
                "model vs implementation on bytes, and an independent CPython-rules decoder (cross-checked against the sandbox's CPython 3.11) comparing input and output trees; non-trivial = modified",
        "samples": hd.sample_cases(cases, impl), "distribution": hd.distribution(cases, impl),
        "correspondence_mismatches": len(mism), "oracle_failures_not_known": len(fails),
    })
    ctx.assumptions += ["CPython's marshal rules per version as written in lib/pymarshal.py (validated against the real 3.11 interpreter only)"]
