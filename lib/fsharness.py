"""File-system level correspondence: scratch trees, snapshots, strace traces, fault and kill injection,
and the model's run_handler evaluated by the extracted OCaml runner."""
import hashlib
import os
import re
import shutil
import stat
import signal
import subprocess
import tempfile
import time

from framework import ENV, cli_bin, model_bin, sh

TRACE_SYSCALLS = "openat,open,creat,write,pwrite64,fchmod,fchmodat,chmod,utimensat,fchownat,lchown,fchown,chown,rename,renameat,renameat2," \
                 "unlink,unlinkat,ftruncate,truncate,copy_file_range,sendfile,splice,link,linkat,symlink,symlinkat,mkdir,mkdirat,rmdir,mknod,mknodat"


class Tree:
    """A scratch directory outside /repo and /verif."""

    def __init__(self, base=None):
        self.root = tempfile.mkdtemp(prefix="adtree-", dir=base)

    def path(self, rel):
        return os.path.join(self.root, rel)

    def add_file(self, rel, data, mode=0o644, mtime_ns=None, uid=None, gid=None):
        p = self.path(rel)
        os.makedirs(os.path.dirname(p), exist_ok=True)
        with open(p, "wb") as f:
            f.write(data)
        if uid is not None or gid is not None:
            os.chown(p, -1 if uid is None else uid, -1 if gid is None else gid)
        os.chmod(p, mode)
        if mtime_ns is not None:
            os.utime(p, ns=(mtime_ns, mtime_ns))
        return p

    def link(self, rel_src, rel_dst):
        os.makedirs(os.path.dirname(self.path(rel_dst)), exist_ok=True)
        os.link(self.path(rel_src), self.path(rel_dst))

    def symlink(self, target, rel_dst):
        os.makedirs(os.path.dirname(self.path(rel_dst)), exist_ok=True)
        os.symlink(target, self.path(rel_dst))

    def mkdir(self, rel, mode=0o755):
        os.makedirs(self.path(rel), exist_ok=True)
        os.chmod(self.path(rel), mode)

    def remove(self):
        subprocess.run(["chmod", "-R", "u+rwx", self.root], stderr=subprocess.DEVNULL)
        shutil.rmtree(self.root, ignore_errors=True)


def snapshot(root, with_dir_mtime=False):
    """relpath -> dict(kind, mode, uid, gid, mtime_ns, ino, nlink, data|target)"""
    out = {}
    for dirpath, dirnames, filenames in os.walk(root, followlinks=False):
        for name in dirnames + filenames + ([""] if dirpath == root else []):
            p = os.path.join(dirpath, name) if name else dirpath
            rel = os.path.relpath(p, root)
            st = os.lstat(p)
            k = "R" if stat.S_ISREG(st.st_mode) else "D" if stat.S_ISDIR(st.st_mode) else "L" if stat.S_ISLNK(st.st_mode) else "S"
            e = {"kind": k, "mode": stat.S_IMODE(st.st_mode), "uid": st.st_uid, "gid": st.st_gid, "mtime_ns": st.st_mtime_ns,
                 "ino": st.st_ino, "nlink": st.st_nlink}
            if k == "R":
                try:
                    with open(p, "rb") as f:
                        e["data"] = f.read()
                except OSError:
                    e["data"] = None
            elif k == "L":
                e["target"] = os.readlink(p)
            if k == "D" and not with_dir_mtime:
                e["mtime_ns"] = None
            out[rel] = e
    return out


def snap_equal(a, b, ignore_ino=False, ignore=()):
    """Compare two snapshots entry by entry; returns list of differences (strings)."""
    diffs = []
    for rel in sorted(set(a) | set(b)):
        if rel in ignore:
            continue
        x, y = a.get(rel), b.get(rel)
        if x is None or y is None:
            diffs.append("%s: %s" % (rel, "appeared" if x is None else "disappeared"))
            continue
        for k in ("kind", "mode", "uid", "gid", "mtime_ns", "nlink", "data", "target") + (() if ignore_ino else ("ino",)):
            if x.get(k) != y.get(k):
                if k == "data":
                    diffs.append("%s: content differs" % rel)
                else:
                    diffs.append("%s: %s %r -> %r" % (rel, k, x.get(k), y.get(k)))
    return diffs


SUMMARY_RE = re.compile(r"Scanned (\d+) directories and (\d+) files,\s*processed (\d+) inodes,\s*(\d+) modified \((\d+) replaced \+ (\d+) rewritten\),\s*(\d+) unsupported format, (\d+) errors")


def parse_summary(out):
    m = SUMMARY_RE.search(out)
    if not m:
        return None
    k = ("directories", "files", "processed", "modified", "replaced", "rewritten", "unsupported", "errors")
    return dict(zip(k, map(int, m.groups())))


def run_cli(args, epoch=None, env_extra=None, cwd=None, strace_out=None, inject=None, timeout=120, release=False, umask=None, fsize_limit=None, as_uid=None, binary=None, fsize_kill=False):
    env = dict(ENV)
    env.pop("SOURCE_DATE_EPOCH", None)
    if epoch is not None:
        env["SOURCE_DATE_EPOCH"] = str(epoch)
    if env_extra:
        env.update(env_extra)
    cmd = [binary or cli_bin(release)] + list(args)
    if strace_out or inject:
        pre = ["strace", "-f", "-y", "-qq", "-s", "0", "-o", strace_out or os.devnull, "-e", "trace=" + TRACE_SYSCALLS]
        if inject:
            pre += ["-e", "inject=" + inject]
        cmd = pre + cmd
    def pre_fn():
        if umask is not None:
            os.umask(umask)
        if fsize_limit is not None:
            # a file may not grow beyond this many bytes: the write that crosses the limit is cut short, the next one fails with EFBIG
            # (SIGXFSZ ignored, as under a full quota or file system the process just sees short and failing writes)
            import resource
            # (fsize_kill: the default action instead - the process that crosses the limit is killed, as a worker may be by any signal)
            signal.signal(signal.SIGXFSZ, signal.SIG_DFL if fsize_kill else signal.SIG_IGN)
            resource.setrlimit(resource.RLIMIT_FSIZE, (fsize_limit, fsize_limit))
        if as_uid is not None:
            # an unprivileged invoker (no supplementary groups): chown to somebody else is refused
            os.setgroups([])
            os.setgid(as_uid)
            os.setuid(as_uid)
    if umask is None and fsize_limit is None and as_uid is None:
        pre_fn = None
    # own session, so that a run that does not come back is killed together with its workers
    p = subprocess.Popen(cmd, env=env, cwd=cwd, stdout=subprocess.PIPE, stderr=subprocess.STDOUT, preexec_fn=pre_fn, start_new_session=True)
    deadline = time.time() + timeout
    exited_at = None
    while True:
        try:
            out, _ = p.communicate(timeout=max(0.1, min(2.0, deadline - time.time())))
            return p.returncode, out.decode("utf-8", "replace")
        except subprocess.TimeoutExpired:
            # the process itself has ended but something it started still holds its output open (workers left behind):
            # its exit status is the result; what is left of its session is removed
            if p.poll() is not None:
                exited_at = exited_at or time.time()
                if time.time() - exited_at > 4:
                    try:
                        os.killpg(p.pid, signal.SIGKILL)
                    except OSError:
                        pass
                    out, _ = p.communicate()
                    return p.returncode, (out or b"").decode("utf-8", "replace") + "\n[processes left behind after exit]"
            if time.time() >= deadline:
                try:
                    os.killpg(p.pid, signal.SIGKILL)
                except OSError:
                    pass
                out, _ = p.communicate()
                return 124, (out or b"").decode("utf-8", "replace") + "\n[timeout]"


# ----------------------------------------------------------------------------- strace -> abstract operations
LINE_RE = re.compile(r"^(\d+)\s+(\w+)\((.*)\)\s+=\s+(-?\d+|\?)(?:<[^>]*>)?\s*(\w+)?")


def _fdpath(tok):
    m = re.search(r"<([^>]*)>", tok)
    return m.group(1) if m else None


def _strarg(tok):
    m = re.match(r'\s*"((?:[^"\\]|\\.)*)"', tok)
    return m.group(1) if m else None


def parse_strace(path, root):
    """Returns (ops, raw) where ops is a list of dicts {kind, path, ok, errno, syscall, index_by_syscall}."""
    ops = []
    counts = {}
    root = os.path.realpath(root)
    for line in open(path, errors="replace"):
        m = LINE_RE.match(line)
        if not m:
            continue
        pid, sc, args, ret, err = m.groups()
        counts[sc] = counts.get(sc, 0) + 1
        idx = counts[sc]
        ok = ret != "?" and int(ret) >= 0
        errno = None if ok else (err or "?")
        parts = [a.strip() for a in re.split(r",\s*(?![^<]*>)", args)]
        kind = None
        p = None
        if sc in ("openat", "open", "creat"):
            a = parts[1:] if sc == "openat" else parts
            p = _strarg(a[0]) if a else None
            flags = a[1] if len(a) > 1 else ""
            if p is None:
                continue
            if sc == "openat" and not os.path.isabs(p):
                base = _fdpath(parts[0]) or ""
                p = os.path.join(base, p)
            if p == "/dev/null":
                kind = "devnull"
            elif "O_DIRECTORY" in flags:
                continue
            elif "O_CREAT" in flags and "O_EXCL" in flags:
                kind = "creat"
            elif "O_CREAT" in flags:
                kind = "creat-nonexcl"
            elif "O_WRONLY" in flags or "O_RDWR" in flags:
                kind = "openw" + ("-trunc" if "O_TRUNC" in flags else "")
            else:
                kind = "openr"
        elif sc in ("write", "pwrite64"):
            p = _fdpath(parts[0])
            kind = "write"
        elif sc in ("copy_file_range", "sendfile", "splice"):
            p = _fdpath(parts[2] if sc in ("copy_file_range", "splice") else parts[0])
            if ret != "?" and int(ret) == 0:
                continue
            kind = "write"
        elif sc == "fchmod":
            p = _fdpath(parts[0]); kind = "fchmod"
        elif sc in ("chmod", "fchmodat"):
            p = _strarg(parts[0] if sc == "chmod" else parts[1]); kind = "chmod-path"
        elif sc == "utimensat":
            p = _fdpath(parts[0]) if _strarg(parts[1]) is None else _strarg(parts[1])
            kind = "futimens" if _strarg(parts[1]) is None else "utimens-path"
        elif sc in ("lchown", "chown"):
            p = _strarg(parts[0]); kind = "lchown" if sc == "lchown" else "chown-follow"
        elif sc == "fchownat":
            p = _strarg(parts[1]); kind = "lchown" if "AT_SYMLINK_NOFOLLOW" in args else "chown-follow"
        elif sc == "fchown":
            p = _fdpath(parts[0]); kind = "fchown"
        elif sc in ("rename", "renameat", "renameat2"):
            strs = [s for s in (_strarg(x) for x in parts) if s is not None]
            p = strs[-1] if strs else None
            kind = "rename"
            src = strs[0] if strs else None
        elif sc in ("unlink", "unlinkat"):
            p = _strarg(parts[0] if sc == "unlink" else parts[1]); kind = "unlink"
        elif sc in ("ftruncate",):
            p = _fdpath(parts[0]); kind = "truncate"
        elif sc in ("truncate",):
            p = _strarg(parts[0]); kind = "truncate"
        elif sc in ("link", "linkat", "symlink", "symlinkat", "mkdir", "mkdirat", "rmdir", "mknod", "mknodat"):
            strs = [s for s in (_strarg(x) for x in parts) if s is not None]
            p = strs[-1] if strs else None
            kind = sc
        if kind is None or p is None:
            continue
        rp = p
        if not (rp == "/dev/null" or os.path.realpath(os.path.dirname(rp) or "/").startswith(root) or rp.startswith(root)):
            continue
        d = {"kind": kind, "path": rp, "ok": ok, "errno": errno, "syscall": sc, "nth": idx, "pid": pid}
        if kind == "rename":
            d["src"] = src
        ops.append(d)
    return ops, counts


def collapse(ops, target=None):
    """Abstract the trace for comparison with the model: drop reads of anything but the target, merge
    consecutive writes to the same file, keep (kind, result)."""
    out = []
    for o in ops:
        k = o["kind"]
        if k == "openr" and target is not None and os.path.realpath(o["path"]) != os.path.realpath(target):
            continue
        r = "ok" if o["ok"] else (o["errno"] or "ERR")
        if k == "write":
            if o["path"] == "/dev/null":
                continue
            if os.path.basename(o["path"]).startswith(".#.") and o["path"].endswith(".tmp"):
                continue          # writes into the hidden temporary file are not compared
            k = "writep"
            if out and out[-1][0] == "writep" and out[-1][2] == o["path"] and r == "ok" and out[-1][1] == "ok":
                continue
        out.append((k, r, o["path"]))
    return [(k, r) for k, r, _ in out]


MODEL_DROP = {"fstat", "writet"}


def model_trace(tr):
    """model trace string -> list of (kind, result) with fstat dropped."""
    out = []
    for tok in tr.split():
        k, r = tok.split(":")
        if k in MODEL_DROP:
            continue
        out.append((k, r))
    return out


# ----------------------------------------------------------------------------- model side
def model_fs_run(ctx, cases):
    """cases: list of dicts {id, nodes: [(path_bytes, ino, kind, mode, uid, gid, mtime_ns, nlink, data)], handler, epoch, check, prof,
    target(bytes), fault (kind, occ, errno) or None, umask, uid, gid, can_chown, now}. Returns id -> dict."""
    cf = os.path.join(ctx.tmp, "fs-cases.txt")
    with open(cf, "w") as f:
        for c in cases:
            f.write("FS %s\n" % c["id"])
            for (p, ino, kind, mode, uid, gid, mt, nl, data) in c["nodes"]:
                f.write("N %s %d %s %d %d %d %d %d %s\n" % (p.hex(), ino, kind, mode, uid, gid, mt, nl, data.hex() if data else "-"))
            fk, fo, fe = c.get("fault") or ("-", 0, "-")
            f.write("RUN %s %s %d %s %s %s %d %s %d %d %d %d %d\n" % (
                c["handler"], "-" if c["epoch"] is None else c["epoch"], 1 if c["check"] else 0, c.get("prof", "debug"),
                c["target"].hex(), fk, fo, fe, c.get("umask", 0o22), c.get("uid", 0), c.get("gid", 0), 1 if c.get("can_chown", True) else 0, c.get("now", 0)))
            f.write("END\n")
    rc, out = sh("ulimit -s unlimited 2>/dev/null; exec %s %s debug fs" % (model_bin(), cf), timeout=900)
    res = {}
    for l in out.split("\n"):
        t = l.split(" ", 2)
        if len(t) < 2:
            continue
        cid, tag = t[0], t[1]
        rest = t[2] if len(t) > 2 else ""
        d = res.setdefault(cid, {"obs": {}, "hist": []})
        if tag == "CLASS":
            d["class"] = rest.strip()
        elif tag == "TRACE":
            d["trace"] = rest.strip()
        elif tag == "FAULTHIT":
            d["faulthit"] = rest.strip()
        elif tag == "OBS":
            ph, _, o = rest.partition(" ")
            d["obs"][bytes.fromhex(ph) if ph != "-" else b""] = parse_obs(o)
        elif tag == "HIST":
            k, _, o = rest.partition(" ")
            tgt, _, tmp = o.partition(" | ")
            d["hist"].append((parse_obs(tgt), tmp.strip()))
    if rc != 0:
        ctx.notes.append("model_run (fs mode) exited %d: %s" % (rc, out[-300:]))
    return res


def parse_obs(o):
    o = o.strip()
    if o == "ABSENT" or not o:
        return None
    t = o.split()
    return {"ino": int(t[0]), "kind": t[1], "mode": int(t[2]), "uid": int(t[3]), "gid": int(t[4]), "mtime_ns": int(t[5]), "nlink": int(t[6]),
            "data": b"" if t[7] == "-" else bytes.fromhex(t[7])}


def nodes_from_snapshot(root, snap):
    """Model nodes for every non-directory entry of a snapshot (absolute paths as the tool sees them)."""
    nodes = []
    inos = {}
    for rel, e in sorted(snap.items()):
        if e["kind"] == "D":
            continue
        p = os.path.join(root, rel).encode()
        ino = inos.setdefault(e["ino"], len(inos) + 1)
        nodes.append((p, ino, e["kind"], e["mode"], e["uid"], e["gid"], e["mtime_ns"], e["nlink"], e.get("data") or b""))
    return nodes, inos


# ----------------------------------------------------------------------------- walk mode
LOOKING_RE = re.compile(r"Looking at (.*)…")


def visiting_order(out):
    """Paths in the order the walk looked at them (from the -v log)."""
    return [m.group(1) for m in LOOKING_RE.finditer(out)]


def nodes_with_dirs(root, snap):
    nodes = []
    inos = {}
    for rel, e in sorted(snap.items()):
        p = (root if rel == "." else os.path.join(root, rel)).encode()
        ino = inos.setdefault(e["ino"], len(inos) + 1)
        data = e.get("data") or b""
        nodes.append((p, ino, e["kind"], e["mode"], e["uid"], e["gid"], e["mtime_ns"] or 0, e["nlink"], data if e["kind"] == "R" else b""))
    return nodes, inos


def model_walk_run(ctx, cases):
    """cases: {id, nodes, handlers [names], epoch, check, entries [bytes]} -> id -> {stats, obs}"""
    cf = os.path.join(ctx.tmp, "walk-cases.txt")
    with open(cf, "w") as f:
        for c in cases:
            f.write("FS %s\n" % c["id"])
            for (p, ino, kind, mode, uid, gid, mt, nl, data) in c["nodes"]:
                f.write("N %s %d %s %d %d %d %d %d %s\n" % (p.hex(), ino, kind, mode, uid, gid, mt, nl, data.hex() if data else "-"))
            f.write("WALK %s %s %d %s %d %d %d %d %d %s\n" % (
                ",".join(c["handlers"]) or "-", "-" if c["epoch"] is None else c["epoch"], 1 if c["check"] else 0, c.get("prof", "debug"),
                c.get("umask", 0o22), c.get("uid", 0), c.get("gid", 0), 1 if c.get("can_chown", True) else 0, c.get("now", 0),
                " ".join(e.hex() for e in c["entries"])))
    rc, out = sh("ulimit -s unlimited 2>/dev/null; exec %s %s debug fs" % (model_bin(), cf), timeout=900)
    res = {}
    for l in out.split("\n"):
        t = l.split(" ", 2)
        if len(t) < 2:
            continue
        cid, tag = t[0], t[1]
        rest = t[2] if len(t) > 2 else ""
        d = res.setdefault(cid, {"obs": {}})
        if tag == "STATS":
            k = ("directories", "files", "processed", "replaced", "rewritten", "unsupported", "errors")
            d["stats"] = dict(zip(k, map(int, rest.split())))
        elif tag == "PANIC":
            d["panic"] = True
        elif tag == "OBS":
            ph, _, o = rest.partition(" ")
            d["obs"][bytes.fromhex(ph)] = parse_obs(o)
    if rc != 0:
        ctx.notes.append("model_run (walk mode) exited %d: %s" % (rc, out[-300:]))
    return res
