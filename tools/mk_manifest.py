#!/usr/bin/env python3
"""Regenerates /verif/MANIFEST.json from the table below (kept here so that the file stays valid)."""
import json
import os

HERE = os.path.dirname(os.path.dirname(os.path.abspath(__file__)))
BASE = ("Trusted: Coq 8.16.1 kernel (vm_compute; no native_compute), no axioms (Print Assumptions is parsed on every run and must be closed), "
        "the translator tools/gen_tables.py, ExtrOcamlBasic extraction + the OCaml driver, the Rust harness / CLI runs / python oracles of the correspondence check. ")
TECH = "machine-checked proof (Coq) + translator-regenerated tables + model/implementation correspondence"

CLAIMS = {
    "C01": ("Coq theorems, one per format, over all inputs in the stated variant relation and all epochs: gzip (same bytes outside MTIME, both later than the epoch) -> identical output; ar (any number of "
            "members, same data, headers agreeing on name/mode/size/terminator, timestamps later than the epoch, owner ids as an archiver writes them) -> identical output; zip/jar: extra fields and "
            "creator version never reach the output, members agreeing on all but a later-than-epoch time are written identically, hence whole archives; javadoc: a header line is written as a function "
            "of its stamp-stripped form, the stamp's version/date text never survives, a date/dc.created tag gets the epoch's date whatever later date it carried; pyc: same header and same object "
            "tree -> same bytes wherever flags and back-references were. gzip with FHCRC (stored CRC16 depends on MTIME and is not recomputed) is the recorded finding F6. Tied to the code by groups "
            "of 2-4 variants of generated artefacts per format run through the real handlers and the extracted model (outputs must be byte-identical within a group and equal to the model's).",
            "Modelled, not verified: the javadoc statements are per line (stamp after a '<'-free prefix, tag at line start); whole-document and mid-line variants are decided by the variant-group runs; "
            "that flag variants of a pyc parse to the same tree is established by the runs (model and implementation agree on every variant).", "DESIGN.md section 5-C01"),
    "C02": ("Coq theorems about the model of the marshal reader and writer (type-code dispatch, code-object field order with version guards, flag bit, depth limit, skip bound "
            "regenerated from pyc.rs). Round trip (C02_roundtrip, induction over all object trees, any nesting and sharing): for every version and every tree in the domain, the reader run on what the writer produced returns "
            "that tree - back-references resolved through the table of flagged objects - and stops exactly at its end; end to end (C02_rewritten_file_rereads): the rewritten file has the input's header, "
            "its payload is read back as the tree the input was read as with nothing left over, and the handler leaves its own output alone. Domain, stated as hypotheses and decided by an executable predicate: "
            "the tree has the shape the reader produces (known type codes, 4/8/16-byte scalars, short strings < 256, dict keys other than NULL, code-object fields of the version), nesting within the reader's limit, "
            "output < 4 GiB; the extracted predicate is run on every sampled input and the check requires that the accepted inputs lie inside it. Further theorems: header copied verbatim; output a function "
            "of header and tree only; files of Python < 3.4 never rewritten; every reference is preceded by the start of the object it names, which carries the flag, at the index the reader looks up; "
            "integers of any size survive; de-duplication key = structural equality. That the modelled reader follows CPython's rules per version is not a theorem: it is decided by the byte-exact "
            "differential run (extracted model vs. the real handler, stdlib corpus and generated streams for 3.4..3.14) plus an independent CPython-rules decoder comparing input and output trees "
            "(itself cross-checked against the sandbox's CPython 3.11).",
            "Modelled, not verified: CPython's marshal rules per version (lib/pymarshal.py); bytecode semantics never interpreted; the model writes on dereferenced values and orders flags by "
            "stream position (= offset order), validated byte-for-byte by the differential run.", "DESIGN.md section 5-C02"),
    "C03": ("PARTIAL. Coq theorems about a model of Zip::process with the parts of the zip crate it relies on (end-of-central-directory search, central/local headers, raw_copy_file, finish): "
            "the magics, the three patch offsets (local +10, central +12 and +38), word order and operators regenerated from zip.rs are those of the records the model writes (patching there = "
            "writing the record with the new value, all members); for EVERY epoch in the DOS range (all 46751 days enumerated in the kernel, time of day by arithmetic) the conversion yields words "
            "that read back as the epoch rounded down to 2 s in UTC; a clamped member keeps name/method/CRC/sizes/attributes/data, its time is kept if not later than the epoch and is the DOS epoch "
            "otherwise, both header copies being written from the one clamped member; the output is zip_write of the clamped members in index order, one per entry. the archive zip_write produces is read back by the "
            "model's reader as exactly the members written (count, order, names, methods, times, CRCs, sizes, data; attributes as raw_copy_file re-derives them), for all member lists whose fields fit their "
            "widths; end to end: for every input of bytes the handler rewrites, the clamped members copied out of the input are what the reader finds in the output (field widths derived from the "
            "input being bytes). Partial because the length of CP437-transcoded names, the 4 GiB bounds on the written records and the absence of an accidental zip64-locator signature "
            "remain hypotheses - they are an executable predicate (zip_domain, extracted, with a soundness theorem), which the check runs on every sampled archive, requiring the rewritten inputs to lie inside - and the input-side reader is the model's own; both are decided by the byte-exact differential run (extracted model vs. the real handler) and by an independent "
            "reader (python zipfile + own central/local header parser, unzip -t) comparing members before/after.",
            "Modelled, not verified: the zip crate (0.6.6) reader/writer as modelled in Zip.v (single disk, no zip64/AES records: such archives are outside the modelled class and only judged by the "
            "independent-reader oracle), CP437 table, DEFLATE data opaque.", "DESIGN.md section 5-C03"),
    "C07": ("Coq theorems, one per handler, that the byte-level function finds nothing to change in its own output: gzip, ar and pyc-zero-mtime for all inputs and epochs; the pyc rewriter on the domain of C02 "
            "(it re-reads the tree it wrote and writes the same bytes: C07_pyc); javadoc for whole documents and epochs in [0, 2^32) or none (C07_javadoc: the output splits into the lines that were written, "
            "every header line is left alone - no stamp text remains, the date written parses back as itself and is not later than the epoch (all 49711 days enumerated in the kernel), the rewritten tag stays the "
            "leftmost one - and the header window does not close later than the first time); zip/jar under the side conditions of C03 (members of the output are not later than the epoch and a second pass over a written "
            "archive of settled members reports nothing; the side conditions are the executable domain predicate measured on every sampled archive). For ANY handler whose byte-level function is idempotent, a "
            "fault-free run that replaced a single-link file is followed by a run that reports Noop, and a run that does not report Replaced leaves the file's bytes, inode and metadata alone (any fault). "
            "Tied to the code by re-running model and implementation on every output of a modifying first run (all six handlers, generated inputs) and by CLI runs run;run;--check in the serial/parallel "
            "combinations (leftover temporary files in the tree, a discarded negative epoch) with inode/mtime snapshots.",
            "Modelled, not verified: the parallel controller; the multi-link rewrite path is covered by the tree runs; zip idempotence holds under the stated side conditions only.", "DESIGN.md section 5-C07"),
    "C08": ("Coq theorems for every byte string: none of the modelled handlers (gzip, ar, javadoc, pyc incl. the recursive marshal reader with its depth limit, pyc-zero-mtime) can reach a panic; "
            "a handler run ends without a result only if the handler's own code panics, hence the walk processes and counts every entry whatever the files contain; a file not reported Replaced is "
            "byte- and metadata-identical afterwards (any handler, any single fault). The polynomial-cost statement is refuted on the model with computed instances (reference DAG, recorded finding F9). "
            "Tied to the code by a class-level differential run over mutations of valid files of every modelled type, all 256 type codes, deep nesting, field maxima, and CLI runs on trees mixing "
            "malformed (zip/jar included) and well-formed files, serial and -j3, debug (and release in the thorough tier).",
            "Modelled, not verified: real stack depth and wall-clock time (the runs decide); the zip crate's parser on arbitrary bytes is exercised by the tree runs only.", "DESIGN.md section 5-C08"),
    "C06": ("Coq theorems over all byte strings and epochs about a model of Javadoc::process/process_line (two patterns as explicit matchers, chrono's %Y-%m-%d grammar, "
            "read_line/write with the original terminator; window constant, operators and pattern strings regenerated/compared by the translator): the output has the same lines with the "
            "same terminators (none/LF/CRLF); a line's content is unchanged or process_line's result; after the header window (line 15 or a line containing </head>) lines are verbatim; "
            "nothing reported => bytes identical; a changed line only has stamp version/date text removed (all other bytes kept in order) and at most one date value, of the leftmost "
            "date/dc.created tag that chrono parses to a date later than the epoch's UTC date, replaced by that date. Tied to the code by a differential run over generated documents "
            "(LF/CRLF/mixed/no final newline, tags embedded in text, several comments, malformed dates, invalid UTF-8, 13 epochs) and a masked-diff oracle.",
            "Modelled, not verified: regex leftmost-first semantics for the two concrete patterns, chrono's parser and calendar (Date.v), Unicode White_Space; validated by the differential run. "
            "Idempotence of the javadoc handler is decided under C07.", "DESIGN.md section 5-C06"),
    "C11": ("Coq theorems about a labelled transition system of the controller/worker protocol (FIFO job queue, one quit message per worker, per-worker statistics, merge by Stats::add; "
            "add_one arms and the merged field list regenerated from the source), for EVERY worker count, job list and schedule (arbitrary list of receive/finish events): a run that ends "
            "has processed every job exactly once, every worker has exited and handed in one result; no reachable state is stuck before the end and no run is longer than twice the number "
            "of messages; the printed totals are the sums over all processed jobs however they were spread over the workers; with jobs that do not interfere, the final tree, the per-job "
            "results and hence the totals are those of the serial run. Tied to the code by comparing, on one tree (all handlers, malformed files, hard links within/across directories, a "
            "non-UTF-8 directory, hundreds to thousands of entries), the serial run with -jN for N from 1 to far above the job count, real and --check, and with reordered / duplicated / "
            "overlapping arguments (state without inode numbers, exit status, totals), and by replaying strace'd schedules of real parallel runs through the extracted model.",
            "Modelled, not verified: job processing is atomic in the model; that jobs on different files do not interfere is the hypothesis `commute` of the general theorem, discharged for the instance in which the tree is the list of its files and a job applies ANY byte-level handler to its own entry (C11_files_parallel_equals_serial), but not derived from the operation-level file-system model of C13; the controller's walk is taken to produce the serial job list (true for non-overlapping arguments; the runs cover overlapping ones); socket capacity and "
            "blocking are not modelled (the pre-filled queue admits every real schedule); worker death is C19.", "DESIGN.md section 5-C11"),
    "C13": ("Coq theorems: (walk) for every list of entries, handler list, mode and single fault, a name that is neither a matching non-temp-named entry nor its hidden temp name is bound "
            "after the walk exactly as before; entries that are temp-named, not regular (symlinks, directories, FIFOs, sockets) or match no enabled handler cause no operation at all; (run) "
            "one handler on one file leaves every other name and every other pre-existing inode unchanged, for any link count, result and fault; (--brp) unset/empty/root build roots are refused "
            "and a passing check means every argument lies component-wise under the build root. Tied to the code by whole-tree snapshots of decoy-laden trees x argument sets x "
            "{real, --check, -j3}, by replaying the implementation's visiting order through the model walk (counters and final tree), and by a strace'd --brp matrix (abort before any open).",
            "Modelled, not verified: walkdir's enumeration (taken from the implementation's -v log), Path::components/extension as modelled in Walk.v/Brp.v; inode-level frame across a whole walk is "
            "proved per run, composed by the snapshot oracle.", "DESIGN.md section 5-C13"),
    "C14": ("Coq theorems: Stats::add_one (arms regenerated from mod.rs) partitions processed into unchanged + replaced + rewritten + unsupported + errors for any result sequence, sums of worker "
            "statistics keep the partition, one result is counted per regular entry; Replaced => the path names a new inode holding the handler's output; anything else => the single-link file "
            "keeps its inode number and inode (content, mode, owner, mtime) - for all handlers, results and single faults. Tied to the code by comparing the CLI summary with a snapshot diff grouped "
            "by inode over trees with dirty/clean/malformed/hard-linked/two-extension inodes x handler selections x {serial, -jN, --check}, and the serial run with the model walk.",
            "Modelled, not verified: Rewritten (multi-link, in place) has a theorem for fault-free runs only; F15 (two handlers on one file) is a recorded finding.", "DESIGN.md section 5-C14"),
    "C18": ("Coq theorem over all byte strings about a model of PycParser::from_file + set_zero_mtime whose magic-number table, offsets and the PEP 552 guard are regenerated from pyc.rs: "
            "whenever the handler returns normally the header was recognised, the timestamp field (offset 4 for 8/12-byte headers, 8 for 16-byte ones) lies inside it, length is unchanged, "
            "no byte outside the field changes, hash-based files are never modified, 'modified' iff timestamp-based with a non-zero field, the field is 0 afterwards; idempotent; "
            "not in the default selection. Tied to the code by the translator, a byte-level differential run over every table arm x flags x mtime values, and real runs with a sibling "
            "source that is a file / missing / symlink / directory / FIFO, with and without --check.",
            "Modelled, not verified: the sibling-source side effect (stat, open, futimens on <module>.py) is checked on the real binary by a snapshot oracle, not by a theorem.", "DESIGN.md section 5-C18"),
    "C15": ("Coq theorems: the byte-level models are functions of content, epoch (and for zip the file's own mtime) only - no environment argument exists; where the code meets something "
            "environment-dependent: (pyc) with the iteration order of the writer's hash maps as an explicit parameter, any two orders give the same flags, the same reference numbers and the "
            "same patched buffer (sort key and patch range regenerated from pyc.rs); (zip) the DOS words are the UTC rounding of the epoch for every epoch in range; (javadoc) the date is the "
            "civil date of floor(epoch/86400); (helper) a replaced file has the original mode and mtime for every environment record (umask, ids, clock universally quantified). Tied to the "
            "code by processing one tree (dirty files of every default handler, times and dates within a day of the epoch, a pyc with dozens of shared objects) in 19 environments per epoch "
            "(time zones, locales, umask, relative argument, deep non-ASCII location, other stems, -v, -jN, repeated launches, stripped HOME/PATH, all combined) and requiring bytes, mode, "
            "mtime, result and exit status identical to the baseline, whose bytes must equal the extracted model's output.",
            "Modelled, not verified: wall-clock time cannot be set in this sandbox (launches at different moments only); Rust's HashMap is represented by 'any permutation of its entries'.",
            "DESIGN.md section 5-C15"),
    "C16": ("Coq theorem for ALL lists of --handler items (not only the 2*2^7 subsets): the model of requested_handlers/filter_by_name over the handler table regenerated from HANDLERS "
            "equals the documented selection function (defaults; positive list = exactly the listed, table order; negative list = defaults minus listed; mixed/unknown/empty = error; "
            "strict iff a list was given); make_handlers = the initialisable selected handlers, fatal iff strict and one cannot initialise; an unselected handler is never run. "
            "Tied to the code by running the real CLI on every subset (positive and negative), odd forms, with/without epoch, split options and -j2 on a tree with one dirty file per "
            "handler, comparing which files changed with the documented function and with the extracted model.",
            "Modelled, not verified: clap parsing; each handler's initialize() condition is modelled (gzip: u32 epoch; zip/jar: DOS range) and validated by the runs.", "DESIGN.md section 5-C16"),
    "C17": ("Coq theorem for all flag and counter values: the verdict formula regenerated from the if/else-if chain at the end of main() equals the documented contract "
            "((check or not brp) and errors>0) or (check and (unsupported>0 or modified>0)), with the three documented corollaries and 'clean files never fail'; totals are sums. "
            "Tied to the code by the translator and by running all 64 mode/content combinations (serial and -j2) on engineered trees, comparing the exit status with the contract and the model.",
            "Modelled, not verified: the counters themselves (C14); zip/jar under --check pending (F1).", "DESIGN.md section 5-C17"),
    "C09": ("Coq theorem over all file-system states, handlers, handler results and single injected faults (Fs.v/Helper.v model of InputOutputHelper): whenever a real run reports "
            "Replaced for a single-link file, the path names a new regular inode holding the handler's output with the original 12-bit mode and ns mtime, owner as far as chown was "
            "permitted, temp name gone, all other names as before; plus the kernel rule showing the chown/chmod order matters. Tied to the code by strace'd CLI runs (operation order, "
            "class, final snapshot = model) over set-id/sticky modes, owners, mtimes, 1..3 links, stale temp; a snapshot oracle judges mode/owner/mtime/inode/link preservation.",
            "Modelled, not verified: Linux semantics of rename/chown/chmod/O_EXCL as abstracted in Fs.v; the multi-link in-place rewrite has a theorem for fault-free runs (same inode, new content, mode/owner/links kept, mtime restored); under faults and 'each inode once' it is checked by correspondence and oracle.",
            "DESIGN.md section 5-C09"),
    "C10": ("Coq theorem: in check mode, for every handler result (errors and panics included), shape, profile and any single failing operation, the file system after the run and at every "
            "intermediate point IS the initial one and only non-mutating operations are issued - for one run and for a whole walk over any entries; and for one file, absent failures, check mode reports exactly the result a real run reports. Tied to the code by strace'd --check runs (no mutating syscall; snapshot incl. directory "
            "mtimes unchanged; class/trace = model) and by comparing counts and verdict with a real run on an identical tree, serially and with -j2.",
            "Modelled, not verified: the agreement theorem is per file and fault-free (C10_predicts_real); agreement of the summed counts over a tree, and under -jN, is established by the runs.",
            "DESIGN.md section 5-C10"),
    "C12": ("Coq theorem quantifying over every intermediate file-system state of a run (one per issued operation, i.e. every kill point), every handler, handler result, shape, profile and "
            "single fault: each state is pre-commit (file entirely original: same inode, content, metadata; every other name but the hidden temp one bound as before) or the one committed "
            "state produced by rename(tmp,file), which is entirely final; and from any pre-commit state a rerun that meets no failure reports Replaced and reaches exactly the final state, whatever temporary file was left. Tied to the code by killing real runs at every traced syscall (strace SIGKILL injection), judging the snapshot, "
            "matching it against the model's state set, and re-running to convergence.",
            "Modelled, not verified: kill = stop between two system calls, no power loss; the convergence theorem covers a rerun that meets no failure on a single-link file whose handler wants a change (the other cases leave the file as it was by C14/C07).",
            "DESIGN.md section 5-C12"),
    "C19": ("The C12/C09 Coq theorems hold with any single operation failing (fault = (k, errno) is universally quantified): all states stay old-or-final and a reported replacement is complete; "
            "the temporary name is unbound at the end unless a removal is among the failed calls; a run whose result is not Error met no failed call other than the tolerated ones (removal of the "
            "temporary file, refused chown, EEXIST on the first creation), i.e. every other failure is reported and counted; the walk goes on over the remaining entries. "
            "Tied to the code by strace error injection (ENOSPC/EIO/EACCES/EPERM) on the first occurrence of every file-system operation kind, comparing class and final state with "
            "the model run under the same fault; oracle: file old-or-final, temp removed unless unlink failed, failure counted, exit non-zero, refused chown tolerated; parallel runs whose "
            "workers are all killed must terminate and fail.",
            "Modelled, not verified: controller/worker protocol (worker death) is exercised on the real binary only until the Multi model is in place.",
            "DESIGN.md section 5-C19"),
    "C04": ("Coq theorems for all byte strings and all epochs about a model of Ar::process (slice ranges, integer types, operators, format width, padding rule "
            "regenerated from ar.rs each run): whenever the handler returns normally the input is a well-formed archive ms under an independent ar(5) reader, the output "
            "is exactly render(map normalise ms) (global magic, member order, data and pad bytes identical; name/mode/size/magic header bytes untouched; long-name table "
            "untouched), it reads back as those members, same length, modified flag iff bytes differ; a clamped timestamp parses back to the epoch and zeroed ids to 0 "
            "(decimal render/parse round trip proved). Tied to the code by the translator and a differential run (extracted model vs. real handler) on generated and corpus archives; "
            "an independent python oracle judges the implementation's outputs.",
            "Modelled, not verified: member data is opaque; the file-system side of replacement is C09/C12.", "DESIGN.md section 5-C04"),
    "C05": ("Coq theorems over all byte strings and all 32-bit epochs about a model of Gzip::process whose constants/ranges/operators are regenerated from gzip.rs each run: "
            "output = input with bytes 4..8 := min(MTIME,epoch), same length, every RFC 1952 header field and the body read back identically (independent header grammar), decoder "
            "acceptance preserved outside the recorded FHCRC defect class (refuted with a witness inside it). Tied to the code by the translator and a differential run "
            "(extracted model vs. the real handler in-process); an independent python oracle (zlib as decoder) judges the implementation's outputs.",
            "Modelled, not verified: DEFLATE data/trailer are opaque bytes (proved unchanged); zlib is the reference decoder; the file-system side is C09/C12.", "DESIGN.md section 5-C05"),
}

ALL = ["C%02d" % i for i in range(1, 20)]
PENDING = "not yet claimed: check under construction (order of work in DESIGN.md section 8)"

checks = []
for pid in sorted(CLAIMS):
    text, note, ref = CLAIMS[pid][:3]
    checks.append({
        "property_id": pid,
        "quick_cmd": "./check %s --tier quick" % pid,
        "thorough_cmd": "./check %s --tier thorough" % pid,
        "evidence_file": "/verif/evidence/%s.json" % pid,
        "replay_cmd_template": "./check %s --replay {path}" % pid,
        "engine": "coq-proof+correspondence",
        "level_claimed": {"category": "proof", "text": text, "design_ref": ref},
        "level_note": BASE + note,
        "technique": TECH if len(CLAIMS[pid]) < 4 else CLAIMS[pid][3],
    })

m = {
    "version": 1,
    "setup_cmd": "./setup.sh",
    "hooks": {"guard": "add_determinism_verif",
              "enable": "RUSTFLAGS='--cfg add_determinism_verif' (set by the checks; no hook commits exist, the flag is reserved)",
              "baseline_off_cmd": "cd /repo && cargo test --workspace --no-fail-fast --offline",
              "source_commits": [], "add_only": True},
    "engines": [{"name": "coq-proof+correspondence", "path": "/verif/check", "serves_properties": sorted(CLAIMS),
                 "kind_free_text": "Coq 8.16 project /verif/coq (models, specs, proofs, Properties/Cxx.v), translator tools/gen_tables.py, extracted OCaml model runner, "
                                   "Rust harness linking /repo, python generators/oracles"}],
    "checks": checks,
    "notes": "See DESIGN.md. Known findings and fixed defects: known_findings.json.",
    "not_applicable": [{"property_id": p, "reason": PENDING} for p in ALL if p not in CLAIMS],
}
json.dump(m, open(os.path.join(HERE, "MANIFEST.json"), "w"), indent=1)
print("claimed:", sorted(CLAIMS))
