#!/usr/bin/env python3
"""Debug helper: compile a .v file truncated just before the first line containing MARKER (after START), show goal."""
import subprocess, sys
f, start, marker = sys.argv[1], sys.argv[2], sys.argv[3]
tmo = sys.argv[4] if len(sys.argv) > 4 else "60"
p = open(f).read()
i = p.index(start)
j = p.index(marker, i)
open('/tmp/CUT.v', 'w').write(p[:j] + "\nShow. Abort.\n")
r = subprocess.run(["timeout", tmo, "coqc", "-Q", "/verif/coq", "AD", "/tmp/CUT.v"], capture_output=True, text=True)
out = r.stdout + r.stderr
print("\n".join(l for l in out.split("\n") if not l.startswith("WARNING conda"))[-3500:])
print("rc", r.returncode)
