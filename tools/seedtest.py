#!/usr/bin/env python3
"""Seeded-change bookkeeping (development tool, not part of any registered check).

  seedtest.py confirm <dir>            confirm a candidate (patch.diff, demo.sh, meta.json) in a scratch worktree:
                                       applies, builds, whole test suite passes, demo exits 0 on the pinned code and 1 with the change
  seedtest.py run <dir> [ids...]       apply the change to /repo, run ./check for the ids (default: the property in meta.json), undo
  seedtest.py cleanup                  remove the scratch worktree

The scratch worktree lives outside /repo and /verif and is removed by `cleanup`.
"""
import json
import os
import re
import shutil
import subprocess
import sys
import time

HERE = os.path.dirname(os.path.dirname(os.path.abspath(__file__)))
SCRATCH = os.environ.get("SEED_SCRATCH", "/tmp/seedconfirm")
ENV = dict(os.environ, CARGO_NET_OFFLINE="true", CARGO_BUILD_JOBS="8")


def sh(cmd, cwd=None, timeout=3600, env=None):
    p = subprocess.run(cmd, cwd=cwd, shell=isinstance(cmd, str), stdout=subprocess.PIPE, stderr=subprocess.STDOUT, timeout=timeout, env=env or ENV)
    return p.returncode, p.stdout.decode("utf-8", "replace")


def ensure_scratch():
    head = sh("git -C /repo rev-parse HEAD")[1].strip()
    if not os.path.isdir(SCRATCH):
        rc, out = sh("git -C /repo worktree add --detach %s HEAD" % SCRATCH)
        assert rc == 0, out
    else:
        sh("git checkout -q --detach %s && git checkout -- . && git clean -fdq src" % head, cwd=SCRATCH)
    base = SCRATCH + ".base-bin"
    stamp = SCRATCH + ".base-rev"
    if not os.path.exists(base) or open(stamp).read().strip() != head:
        rc, out = sh("cargo build --offline", cwd=SCRATCH)
        assert rc == 0, out[-2000:]
        shutil.copy(SCRATCH + "/target/debug/add-determinism", base)
        open(stamp, "w").write(head)
    return base


def suite(cwd):
    rc, out = sh("cargo test --workspace --no-fail-fast --offline", cwd=cwd, timeout=3600)
    passed = sum(int(m.group(1)) for m in re.finditer(r"test result: \w+\. (\d+) passed", out))
    failed = sum(int(m.group(1)) for m in re.finditer(r"test result: \w+\. \d+ passed; (\d+) failed", out))
    return rc, passed, failed, out


def confirm(d):
    base = ensure_scratch()
    patch = os.path.abspath(os.path.join(d, "patch.diff"))
    res = {"dir": d}
    rc, out = sh(["git", "apply", "--check", patch], cwd=SCRATCH)
    res["applies"] = rc == 0
    if rc != 0:
        res["error"] = out[-500:]
        return res
    try:
        sh(["git", "apply", patch], cwd=SCRATCH)
        res["touches"] = sh("git diff --stat | cat", cwd=SCRATCH)[1].strip().splitlines()
        rc, out = sh("cargo build --offline 2>&1", cwd=SCRATCH)
        res["builds"] = rc == 0
        res["warnings"] = len(re.findall(r"^warning", out, re.M))
        if rc != 0:
            res["error"] = out[-800:]
            return res
        mut = SCRATCH + ".mut-bin"
        shutil.copy(SCRATCH + "/target/debug/add-determinism", mut)
        rc, p, f, out = suite(SCRATCH)
        res["suite"] = {"exit": rc, "passed": p, "failed": f}
        demo = os.path.abspath(os.path.join(d, "demo.sh"))
        rc0, out0 = sh(["bash", demo, base], timeout=600)
        rc1, out1 = sh(["bash", demo, mut], timeout=600)
        res["demo_unchanged_exit"] = rc0
        res["demo_changed_exit"] = rc1
        res["demo_changed_tail"] = out1[-600:]
        res["confirmed"] = bool(res["builds"] and rc == 0 and f == 0 and p >= 867 and rc0 == 0 and rc1 == 1)
    finally:
        sh("git checkout -- . && git clean -fdq src", cwd=SCRATCH)
    return res


def run_copy(d, ids):
    """Same as run, but on a scratch worktree of /repo and a scratch copy of /verif, so that work in /verif can go on meanwhile."""
    meta = json.load(open(os.path.join(d, "meta.json")))
    ids = ids or [meta["property"]]
    patch = os.path.abspath(os.path.join(d, "patch.diff"))
    srepo, sverif = os.environ.get("SEED_REPO", "/tmp/seedrepo"), os.environ.get("SEED_VERIF", "/tmp/vseed")
    head = sh("git -C /repo rev-parse HEAD")[1].strip()
    if not os.path.isdir(srepo):
        rc, out = sh("git -C /repo worktree add --detach %s HEAD" % srepo)
        assert rc == 0, out
    sh("git checkout -q --detach %s && git checkout -- . && git clean -fdq src" % head, cwd=srepo)
    os.makedirs(sverif, exist_ok=True)
    sh("rsync -a --delete --exclude .build --exclude replays --exclude evidence --exclude .git %s/ %s/" % (HERE, sverif))
    if not os.path.isdir(sverif + "/.build"):
        sh("cp -a %s/.build %s/.build" % (HERE, sverif))
    os.makedirs(sverif + "/evidence", exist_ok=True)
    sh("sed -i 's#path = \"/repo\"#path = \"%s\"#' %s/harness/Cargo.toml" % (srepo, sverif))
    rc, out = sh(["git", "apply", patch], cwd=srepo)
    assert rc == 0, out
    res = {}
    env = dict(os.environ, VERIF_REPO=srepo)
    try:
        for pid in ids:
            t0 = time.time()
            rc, out = sh(["./check", pid, "--tier", os.environ.get("SEED_TIER", "quick")], cwd=sverif, timeout=7200, env=env)
            viol = [l for l in out.splitlines() if l.startswith("VIOLATION")]
            res[pid] = {"exit": rc, "violations": viol, "tail": out.strip().splitlines()[-1:], "wall_s": round(time.time() - t0, 1)}
    finally:
        sh("git checkout -- . && git clean -fdq src", cwd=srepo)
    return res


def run(d, ids):
    meta = json.load(open(os.path.join(d, "meta.json")))
    ids = ids or [meta["property"]]
    patch = os.path.abspath(os.path.join(d, "patch.diff"))
    st = sh("git -C /repo status --porcelain")[1].strip()
    assert st == "", "/repo is not clean:\n" + st
    rc, out = sh(["git", "-C", "/repo", "apply", patch])
    assert rc == 0, out
    res = {}
    try:
        for pid in ids:
            t0 = time.time()
            rc, out = sh(["./check", pid, "--tier", os.environ.get("SEED_TIER", "quick")], cwd=HERE, timeout=7200, env=os.environ.copy())
            viol = [l for l in out.splitlines() if l.startswith("VIOLATION")]
            res[pid] = {"exit": rc, "violations": viol, "tail": out.strip().splitlines()[-1:], "wall_s": round(time.time() - t0, 1)}
    finally:
        sh("git -C /repo checkout -- .")
        assert sh("git -C /repo status --porcelain")[1].strip() == ""
    return res


if __name__ == "__main__":
    cmd = sys.argv[1]
    if cmd == "confirm":
        print(json.dumps(confirm(sys.argv[2]), indent=1))
    elif cmd == "run-copy":
        print(json.dumps(run_copy(sys.argv[2], sys.argv[3:]), indent=1))
    elif cmd == "run":
        print(json.dumps(run(sys.argv[2], sys.argv[3:]), indent=1))
    elif cmd == "cleanup":
        sh("git -C /repo worktree remove --force %s" % SCRATCH)
        sh("git -C /repo worktree remove --force /tmp/seedrepo")
        shutil.rmtree("/tmp/vseed", ignore_errors=True)
        for f in (".base-bin", ".base-rev", ".mut-bin"):
            if os.path.exists(SCRATCH + f):
                os.remove(SCRATCH + f)
