From Coq Require Import ZArith List Bool Lia.
Import ListNotations.
Open Scope Z_scope.

(* Hinnant's algorithms on Z *)
Definition days_from_civil (y m d: Z) : Z :=
  let y := if m <=? 2 then y - 1 else y in
  let era := (if y >=? 0 then y else y - 399) / 400 in
  let yoe := y - era * 400 in
  let doy := (153 * (if m >? 2 then m - 3 else m + 9) + 2) / 5 + d - 1 in
  let doe := yoe * 365 + yoe / 4 - yoe / 100 + doy in
  era * 146097 + doe - 719468.

Definition civil_from_days (z: Z) : Z * Z * Z :=
  let z := z + 719468 in
  let era := (if z >=? 0 then z else z - 146096) / 146097 in
  let doe := z - era * 146097 in
  let yoe := (doe - doe / 1460 + doe / 36524 - doe / 146096) / 365 in
  let y := yoe + era * 400 in
  let doy := doe - (365 * yoe + yoe / 4 - yoe / 100) in
  let mp := (5 * doy + 2) / 153 in
  let d := doy - (153 * mp + 2) / 5 + 1 in
  let m := if mp <? 10 then mp + 3 else mp - 9 in
  (if m <=? 2 then y + 1 else y, m, d).

Definition d0 := days_from_civil 1980 1 1.
Definition d1 := days_from_civil 2107 12 31.
Eval vm_compute in (d0, d1, d1 - d0 + 1).


Definition day_ok (z: Z) : bool :=
  let '(y,m,d) := civil_from_days z in
  (days_from_civil y m d =? z) && (1980 <=? y) && (y <=? 2107) && (1 <=? m) && (m <=? 12) && (1 <=? d) && (d <=? 31).

(* 47 blocks of 1000 days cover 3652 .. 50651 >= 50402; days past d1 are checked only up to the year bound *)
Definition blk_ok (a: nat) : bool :=
  forallb (fun b => let z := 3652 + 1000 * Z.of_nat a + Z.of_nat b in (50402 <? z) || day_ok z) (seq 0 1000).

Lemma sweep : forallb blk_ok (seq 0 47) = true.
Proof. vm_compute. reflexivity. Qed.

Lemma day_roundtrip z : 3652 <= z <= 50402 ->
  let '(y,m,d) := civil_from_days z in days_from_civil y m d = z /\ 1980 <= y <= 2107 /\ 1 <= m <= 12 /\ 1 <= d <= 31.
Proof.
  intros H.
  set (a := Z.to_nat ((z - 3652) / 1000)). set (b := Z.to_nat ((z - 3652) mod 1000)).
  assert (Ha : In a (seq 0 47)) by (apply in_seq; unfold a; split; [lia|]; apply Nat2Z.inj_lt; rewrite Z2Nat.id by (apply Z.div_pos; lia); cbn; apply Z.div_lt_upper_bound; lia).
  assert (Hb : In b (seq 0 1000)).
  { apply in_seq; unfold b; split; [lia|]. apply Nat2Z.inj_lt. rewrite Z2Nat.id by (apply Z.mod_pos_bound; lia).
    change (Z.of_nat (0 + 1000)) with 1000. apply Z.mod_pos_bound; lia. }
  assert (X := proj1 (forallb_forall _ _) sweep _ Ha). unfold blk_ok in X.
  assert (Y := proj1 (forallb_forall _ _) X _ Hb). cbv beta zeta in Y.
  replace (3652 + 1000 * Z.of_nat a + Z.of_nat b) with z in Y.
  2:{ unfold a, b. rewrite !Z2Nat.id by first [apply Z.div_pos; lia | apply Z.mod_pos_bound; lia].
      pose proof (Z.div_mod (z - 3652) 1000 ltac:(lia)). lia. }
  apply orb_true_iff in Y as [Y|Y]; [apply Z.ltb_lt in Y; lia|].
  unfold day_ok in Y. destruct (civil_from_days z) as [[y m] d].
  repeat (apply andb_true_iff in Y as [Y ?]). rewrite Z.eqb_eq in Y. rewrite !Z.leb_le in *. lia.
Qed.
Print Assumptions day_roundtrip.
