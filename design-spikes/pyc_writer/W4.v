From Coq Require Import List Arith Bool Lia.
Import ListNotations.
Require Import W2 W3.
Local Arguments Nat.ltb : simpl never.
Local Arguments Nat.leb : simpl never.
Local Arguments Nat.eqb : simpl never.

(* decoder restated with the child loop as a separate function *)
Definition dres := option (value * nat * list (option value)).
Fixpoint decl (d: nat -> list (option value) -> dres) (n p:nat) (R: list (option value))
  : option (list value * nat * list (option value)) :=
  match n with
  | 0 => Some ([], p, R)
  | S n' => match d p R with
            | Some (v, p1, R1) =>
                match decl d n' p1 R1 with
                | Some (vs, p2, R2) => Some (v::vs, p2, R2)
                | None => None
                end
            | None => None
            end
  end.

Fixpoint dec2 (fuel:nat) (B: list nat) (p:nat) (R: list (option value)) : dres :=
  match fuel with
  | 0 => None
  | S f =>
    match nth_error B p with
    | None => None
    | Some b =>
      let flag := 128 <=? b in
      let t := if flag then b - 128 else b in
      if t =? 78 then Some (VNone, p+1, R)
      else if t =? 105 then
        match nth_error B (p+1) with
        | Some n => let v := VInt n in Some (v, p+2, if flag then R ++ [Some v] else R)
        | None => None
        end
      else if t =? 114 then
        match nth_error B (p+1) with
        | Some k => match nth_error R k with Some (Some v) => Some (v, p+2, R) | _ => None end
        | None => None
        end
      else if t =? 41 then
        match nth_error B (p+1) with
        | Some n =>
          let R1 := if flag then R ++ [None] else R in
          match decl (dec2 f B) n (p+2) R1 with
          | Some (vs, p', R2) =>
              let v := VTup vs in
              Some (v, p', if flag then set_nth (length R) (Some v) R2 else R2)
          | None => None
          end
        | None => None
        end
      else None
    end
  end.

Fixpoint hgt (o:obj) : nat :=
  match o with
  | OTup l => S ((fix go (l:list obj) := match l with [] => 0 | x::r => Nat.max (hgt x) (go r) end) l)
  | ORef t => hgt t
  | _ => 1
  end.
Lemma hgt_pos o : 1 <= hgt o.
Proof. induction o using obj_ind'; cbn; lia. Qed.
Lemma hgt_child x l : In x l -> hgt x < hgt (OTup l).
Proof. cbn. induction l as [|y r IH]; cbn; [tauto|]. intros [->|H]; [lia|]. specialize (IH H). lia. Qed.

Record Ext (s F:st) (opens: list nat) : Prop := {
  E1 : exists rest, buf F = buf s ++ rest;
  E2 : forall v o c, In (v,(o,c)) (seen s) -> exists c', c <= c' /\ In (v,(o,c')) (seen F);
  E3 : forall v o c, In (v,(o,c)) (seen F) -> (exists c0, In (v,(o,c0)) (seen s)) \/ In o opens \/ blen s <= o;
  E4 : forall q v, In (q,v) (fixes F) -> In (q,v) (fixes s) \/ blen s <= q;
  E5 : forall q v, In (q,v) (fixes s) -> In (q,v) (fixes F) }.
Definition OpensLt (opens:list nat) (s:st) := forall o, In o opens -> o + 2 <= blen s.

Lemma ext_mono s s' F opens : Mono s s' -> Ext s' F opens -> Ext s F opens.
Proof.
  intros Hm He. assert (Hl := Mono_blen _ _ Hm).
  destruct Hm as [[r1 X1] A2 A3 A4 A5], He as [[r2 X2] B2 B3 B4 B5]. split.
  - exists (r1 ++ r2). now rewrite X2, X1, app_assoc.
  - intros v o c H. destruct (A2 _ _ _ H) as (c1 & ? & H1). destruct (B2 _ _ _ H1) as (c2 & ? & ?).
    exists c2; split; [lia|auto].
  - intros v o c H. destruct (B3 _ _ _ H) as [(c1 & H1)|[?|?]]; [|tauto|right; right; lia].
    destruct (A3 _ _ _ H1) as [?|?]; tauto.
  - intros q v H. destruct (B4 _ _ H) as [H1|?]; [|right; lia]. apply A4 in H1. tauto.
  - auto.
Qed.

Lemma ext_buf s F opens p b : Ext s F opens -> nth_error (buf s) p = Some b -> nth_error (buf F) p = Some b.
Proof.
  intros [[r E] _ _ _ _] H. rewrite E. rewrite nth_error_app1; auto.
  apply nth_error_Some. congruence.
Qed.

(* ---------- pointwise facts about the final buffer ---------- *)
Lemma flaggedb_false F p : (forall v o c, In (v,(o,c)) (seen F) -> o <> p) -> flaggedb F p = false.
Proof.
  intros H. unfold flaggedb. apply not_true_is_false. intros E. apply existsb_exists in E as ([v [o c]] & Hin & E).
  cbn in E. apply andb_true_iff in E as [E _]. apply Nat.eqb_eq in E. eapply H; eauto.
Qed.

Lemma flaggedb_entry F v o c : NoDup (offs (seen F)) -> In (v,(o,c)) (seen F) -> flaggedb F o = (0 <? c).
Proof.
  unfold flaggedb. induction (seen F) as [|[k [o' c']] r IH]; cbn [existsb In offs map eoff fst snd]; [tauto|].
  intros ND [E|Hin].
  - injection E as -> -> ->. rewrite Nat.eqb_refl. cbn [andb].
    destruct (0 <? c); [reflexivity|]. cbn [orb].
    inversion ND as [|? ? Hn _]; subst.
    apply not_true_is_false. intros E. apply existsb_exists in E as ([v' [o'' c'']] & Hin & E).
    cbn [fst snd] in E. apply andb_true_iff in E as [E _]. apply Nat.eqb_eq in E. subst.
    apply Hn. change o with (eoff (v',(o,c''))). now apply in_map.
  - inversion ND as [|? ? Hn ND']; subst.
    destruct (o' =? o) eqn:E.
    + apply Nat.eqb_eq in E; subst. exfalso. apply Hn. change o with (eoff (v,(o,c))). now apply in_map.
    + cbn [andb orb]. auto.
Qed.

Lemma byte_plain F p b :
  nth_error (buf F) p = Some b ->
  (forall v o c, In (v,(o,c)) (seen F) -> o <> p) ->
  (forall q v, In (q,v) (fixes F) -> S q <> p) ->
  nth_error (final F) p = Some b.
Proof.
  intros Hb He Hf. rewrite final_nth, Hb. cbn. unfold fbyte. rewrite flaggedb_false by auto.
  rewrite find_none; auto. intros [q v] Hin. cbn. apply Nat.eqb_neq. eauto.
Qed.

Lemma byte_start F a b v c :
  nth_error (buf F) a = Some b -> NoDup (offs (seen F)) -> In (v,(a,c)) (seen F) ->
  (forall q w, In (q,w) (fixes F) -> S q <> a) ->
  nth_error (final F) a = Some (if 0 <? c then b + 128 else b).
Proof.
  intros Hb ND Hin Hf. rewrite final_nth, Hb. cbn. unfold fbyte. rewrite (flaggedb_entry F v a c) by auto.
  destruct (0 <? c); [reflexivity|].
  rewrite find_none; auto. intros [q w] Hq. cbn. apply Nat.eqb_neq. eauto.
Qed.

Lemma byte_fix F q v b :
  nth_error (buf F) (S q) = Some b ->
  (forall k o c, In (k,(o,c)) (seen F) -> o <> S q) ->
  NoDup (map fst (fixes F)) -> In (q,v) (fixes F) ->
  nth_error (final F) (S q) = Some (idx F (offof F v)).
Proof.
  intros Hb He ND Hin. rewrite final_nth, Hb. cbn. unfold fbyte. rewrite flaggedb_false by auto.
  rewrite (find_unique _ _ q v); auto.
  - cbn. apply Nat.eqb_refl.
  - intros q' v' _ E. cbn in E. apply Nat.eqb_eq in E. lia.
Qed.

(* ---------- rank facts ---------- *)
Lemma idx_eq F p p' :
  (forall v o c, In (v,(o,c)) (seen F) -> 0 < c -> (o < p <-> o < p')) -> idx F p = idx F p'.
Proof.
  intros H. unfold idx. apply filter_len_eq. intros [v [o c]] Hin. cbn.
  destruct (0 <? c) eqn:Ec; [|now rewrite !andb_false_r].
  apply Nat.ltb_lt in Ec. specialize (H _ _ _ Hin Ec). rewrite !andb_true_r.
  destruct (o <? p) eqn:E1, (o <? p') eqn:E2; auto;
    rewrite ?Nat.ltb_lt, ?Nat.ltb_ge in *; lia.
Qed.

Lemma idx_lt F v o c a : In (v,(o,c)) (seen F) -> 0 < c -> o < a -> idx F o < idx F a.
Proof.
  intros Hin Hc Hlt. unfold idx. eapply filter_len_lt with (x := (v,(o,c))); auto.
  - intros [k [o' c']] _. cbn. rewrite !andb_true_iff, !Nat.ltb_lt. lia.
  - cbn. rewrite Nat.ltb_irrefl. reflexivity.
  - cbn. apply andb_true_iff; split; apply Nat.ltb_lt; lia.
Qed.

Lemma filter_len_one {A B} (g: A -> B) (P Q: A -> bool) l x :
  NoDup (map g l) -> In x l -> P x = false -> Q x = true ->
  (forall y, In y l -> g y <> g x -> P y = Q y) ->
  length (filter Q l) = S (length (filter P l)).
Proof.
  induction l as [|y r IH]; cbn; intros ND Hin HP HQ H; [tauto|].
  inversion ND as [|? ? Hn ND']; subst.
  destruct Hin as [->|Hin].
  - rewrite HP, HQ. cbn. f_equal. apply filter_len_eq. intros z Hz. symmetry. apply H; auto.
    intros E. apply Hn. rewrite <- E. now apply in_map.
  - assert (g y <> g x) by (intros E; apply Hn; rewrite E; now apply in_map).
    rewrite (H y (or_introl eq_refl)) by auto.
    specialize (IH ND' Hin HP HQ (fun z Hz => H z (or_intror Hz))).
    destruct (Q y); cbn; lia.
Qed.

Lemma idx_step F v a c p' :
  NoDup (offs (seen F)) -> In (v,(a,c)) (seen F) -> a < p' ->
  (forall k o c', In (k,(o,c')) (seen F) -> o <> a -> (o < a <-> o < p')) ->
  idx F p' = idx F a + (if 0 <? c then 1 else 0).
Proof.
  intros ND Hin Hlt H. destruct (0 <? c) eqn:Ec.
  - unfold idx. rewrite Nat.add_1_r.
    apply (filter_len_one eoff _ _ _ (v,(a,c))); auto.
    + cbn. now rewrite Nat.ltb_irrefl.
    + cbn. rewrite Ec, andb_true_r. apply Nat.ltb_lt; lia.
    + intros [k [o c']] Hy Hne. cbn in *. specialize (H _ _ _ Hy Hne).
      destruct (o <? a) eqn:E1, (o <? p') eqn:E2; auto; rewrite ?Nat.ltb_lt, ?Nat.ltb_ge in *; lia.
  - rewrite Nat.add_0_r. symmetry. apply idx_eq. intros k o c' Hk Hc'.
    destruct (Nat.eq_dec o a) as [->|Hne]; [|now apply (H k o c')].
    (* o = a : the entry at a is (v,(a,c)) with c = 0, contradiction with 0 < c' via NoDup *)
    exfalso. assert (flaggedb F a = (0 <? c')) by (eapply flaggedb_entry; eauto).
    assert (flaggedb F a = (0 <? c)) by (eapply flaggedb_entry; eauto).
    apply Nat.ltb_lt in Hc'. congruence.
Qed.

Definition Rok (s F:st) (R: list (option value)) :=
  length R = idx F (blen s) /\
  forall v o c, In (v,(o,c)) (seen s) -> flaggedb F o = true -> nth_error R (idx F o) = Some (Some v).
