From Coq Require Import List Arith Bool Lia.
Import ListNotations.
Require Import W2 W3 W4.
Local Arguments Nat.ltb : simpl never.
Local Arguments Nat.leb : simpl never.
Local Arguments Nat.eqb : simpl never.

Lemma idx_mono F p p' : p <= p' -> idx F p <= idx F p'.
Proof.
  intros H. unfold idx. apply filter_len_le. intros [v [o c]] _. cbn.
  rewrite !andb_true_iff, !Nat.ltb_lt. lia.
Qed.

Lemma blen_app s l : length (buf s ++ l) = blen s + length l.
Proof. unfold blen. now rewrite app_length. Qed.

Lemma nth_app_k {A} (l r: list A) p k : p = length l + k -> nth_error (l ++ r) p = nth_error r k.
Proof. intros ->. rewrite nth_error_app2 by lia. f_equal. lia. Qed.
Ltac bufat k := (rewrite (nth_app_k _ _ _ k) by (unfold blen in *; cbn; lia)); reflexivity.

Section Main.
Variable F : st.
Hypothesis HF : WF F.

(* an entry of F known through Ext: where can its offset be *)
Lemma ext_entry s opens v o c :
  WF s -> OpensLt opens s -> Ext s F opens -> In (v,(o,c)) (seen F) ->
  (exists c0, In (v,(o,c0)) (seen s) /\ o + 2 <= blen s) \/ (In o opens /\ o + 2 <= blen s) \/ blen s <= o.
Proof.
  intros Hs Ho He Hin. destruct (E3 _ _ _ He _ _ _ Hin) as [(c0 & H0)|[H0|H0]]; auto.
  left. exists c0. split; auto. eapply W1; eauto.
Qed.
Lemma ext_fix s opens q v :
  WF s -> Ext s F opens -> In (q,v) (fixes F) -> (In (q,v) (fixes s) /\ q + 2 <= blen s) \/ blen s <= q.
Proof.
  intros Hs He Hin. destruct (E4 _ _ _ He _ _ Hin) as [H0|H0]; auto. left; split; auto. eapply W4; eauto.
Qed.

Lemma flag_of_entry s opens v o c :
  Ext s F opens -> In (v,(o,c)) (seen s) ->
  exists c', c <= c' /\ In (v,(o,c')) (seen F) /\ flaggedb F o = (0 <? c').
Proof.
  intros He Hin. destruct (E2 _ _ _ He _ _ _ Hin) as (c' & Hle & HinF).
  exists c'. repeat split; auto. eapply flaggedb_entry; eauto. apply HF.
Qed.

Lemma Rok_app s R x :
  Rok s F R -> forall v o c, In (v,(o,c)) (seen s) -> flaggedb F o = true ->
  nth_error (R ++ [x]) (idx F o) = Some (Some v).
Proof.
  intros [_ H] v o c Hin Hfl. specialize (H _ _ _ Hin Hfl).
  rewrite nth_error_app1; auto. apply nth_error_Some. congruence.
Qed.

(* ---- reference to an already written object ---- *)
Lemma dec_ref v s opens R o c fuel :
  WF s -> OpensLt opens s -> Ext (wref v s) F opens -> Rok s F R ->
  lookup v (seen s) = Some (o,c) -> 1 <= fuel ->
  exists R', dec2 fuel (final F) (blen s) R = Some (v, blen (wref v s), R') /\ Rok (wref v s) F R'.
Proof.
  intros Hs Ho He Hr Hl Hfu.
  assert (Hs' : WF (wref v s)) by now apply wref_wf.
  assert (Hb' : blen (wref v s) = blen s + 2) by (unfold blen; cbn; rewrite app_length; cbn; lia).
  assert (Ho' : OpensLt opens (wref v s)) by (intros x Hx; specialize (Ho x Hx); lia).
  assert (Hent : forall k o' c', In (k,(o',c')) (seen F) -> o' + 2 <= blen s \/ blen s + 2 <= o').
  { intros k o' c' Hin. destruct (ext_entry _ _ _ _ _ Hs' Ho' He Hin) as [(c0 & H0 & _)|[[H0 _]|H0]].
    - cbn in H0. destruct (bump_inv _ _ _ _ _ H0) as (c1 & _ & H1). left. eapply W1; eauto.
    - left. auto.
    - right. lia. }
  assert (Hfix : forall q w, In (q,w) (fixes F) -> q = blen s \/ q + 2 <= blen s \/ blen s + 2 <= q).
  { intros q w Hin. destruct (ext_fix _ _ _ _ Hs' He Hin) as [[H0 _]|H0]; [|right; right; lia].
    cbn in H0. destruct H0 as [E|H0]; [injection E as <- _; now left|]. right; left. eapply W4; eauto. }
  assert (B0 : nth_error (buf F) (blen s) = Some 114).
  { eapply ext_buf; eauto. cbn [wref buf]. bufat 0. }
  assert (B1 : nth_error (buf F) (S (blen s)) = Some 0).
  { eapply ext_buf; eauto. cbn [wref buf]. bufat 1. }
  assert (F0 : nth_error (final F) (blen s) = Some 114).
  { apply byte_plain; auto.
    - intros k o' c' Hin. specialize (Hent _ _ _ Hin). lia.
    - intros q w Hin. specialize (Hfix _ _ Hin). lia. }
  assert (HinF : In (blen s, v) (fixes F)) by (eapply E5; eauto; cbn; now left).
  assert (F1 : nth_error (final F) (S (blen s)) = Some (idx F (offof F v))).
  { eapply byte_fix; eauto; [|apply HF].
    intros k o' c' Hin. specialize (Hent _ _ _ Hin). lia. }
  assert (Hpos := bump_pos _ _ _ _ Hl).
  destruct (flag_of_entry (wref v s) opens v o (S c) He Hpos) as (c' & Hc' & HinF' & Hfl).
  assert (Hoff : offof F v = o).
  { unfold offof. rewrite (lookup_NoDup v (o,c') (seen F)); auto. apply HF. }
  assert (Hfl' : flaggedb F o = true) by (rewrite Hfl; apply Nat.ltb_lt; lia).
  assert (HR : nth_error R (idx F o) = Some (Some v)).
  { destruct Hr as [_ Hr]. eapply Hr; eauto. eapply lookup_In; eauto. }
  exists R. split.
  - destruct fuel as [|f]; [lia|]. cbn [dec2]. rewrite F0. cbv zeta.
    change (128 <=? 114) with false. cbv iota.
    change (114 =? 78) with false. change (114 =? 105) with false. change (114 =? 114) with true. cbv iota.
    rewrite Nat.add_1_r, F1, Hoff, HR. rewrite Hb'. reflexivity.
  - destruct Hr as [Hlen Hr]. split.
    + rewrite Hlen, Hb'. apply idx_eq. intros k o' c'' Hin _. specialize (Hent _ _ _ Hin). lia.
    + intros k o' c'' Hin Hf. cbn in Hin. destruct (bump_inv _ _ _ _ _ Hin) as (c1 & _ & H1). eauto.
Qed.

(* ---- the main lemma ---- *)
Definition Goal_ (o:obj) := forall s opens R fuel,
   WF s -> OpensLt opens s -> Ext (wobj o s) F opens -> Rok s F R -> hgt o <= fuel ->
   exists R', dec2 fuel (final F) (blen s) R = Some (erase o, blen (wobj o s), R') /\ Rok (wobj o s) F R'.

Lemma dec_list l : Forall Goal_ l ->
  forall s opens R f,
   WF s -> OpensLt opens s -> Ext (fold_left (fun s x => wobj x s) l s) F opens -> Rok s F R ->
   (forall x, In x l -> hgt x <= f) ->
   exists R', decl (dec2 f (final F)) (length l) (blen s) R
              = Some (map erase l, blen (fold_left (fun s x => wobj x s) l s), R')
              /\ Rok (fold_left (fun s x => wobj x s) l s) F R'.
Proof.
  induction 1 as [|x r Hx Hr IH]; intros s opens R f Hs Ho He HR Hh; cbn [fold_left length map decl].
  - exists R. split; auto.
  - cbn [fold_left] in He.
    assert (Hm : Mono (wobj x s) (fold_left (fun s x => wobj x s) r (wobj x s))).
    { apply fold_mono. apply Forall_forall. intros y _. apply wobj_mono. }
    assert (Hex : Ext (wobj x s) F opens) by (eapply ext_mono; eauto).
    destruct (Hx s opens R f Hs Ho Hex HR (Hh x (or_introl eq_refl))) as (R1 & D1 & HR1).
    assert (Hsx : WF (wobj x s)) by now apply wobj_wf.
    assert (Hox : OpensLt opens (wobj x s)).
    { intros o Hin. specialize (Ho o Hin). assert (X := Mono_blen _ _ (wobj_mono x s)). lia. }
    destruct (IH (wobj x s) opens R1 f Hsx Hox He HR1 (fun y Hy => Hh y (or_intror Hy))) as (R2 & D2 & HR2).
    exists R2. split; auto. rewrite D1, D2. reflexivity.
Qed.

Lemma main o : Goal_ o.
Proof.
  induction o as [|n|l IH|t IH] using obj_ind'; unfold Goal_; intros s opens R fuel Hs Ho He HR Hfu.
  - (* None *)
    cbn [wobj] in *. set (s' := mk (buf s ++ [78]) (seen s) (fixes s)) in *.
    assert (Hb' : blen s' = blen s + 1) by (unfold blen, s'; cbn; rewrite app_length; cbn; lia).
    assert (Hs' : WF s') by (apply (wobj_wf ONone s Hs)).
    assert (Ho' : OpensLt opens s') by (intros x Hx; specialize (Ho x Hx); lia).
    assert (Hent : forall k o' c', In (k,(o',c')) (seen F) -> o' + 2 <= blen s \/ blen s + 1 <= o').
    { intros k o' c' Hin. destruct (ext_entry _ _ _ _ _ Hs' Ho' He Hin) as [(c0 & H0 & _)|[[H0 _]|H0]].
      - left. eapply W1; eauto.
      - left; auto.
      - right; lia. }
    assert (Hfix : forall q w, In (q,w) (fixes F) -> q + 2 <= blen s \/ blen s + 1 <= q).
    { intros q w Hin. destruct (ext_fix _ _ _ _ Hs' He Hin) as [[H0 _]|H0]; [|right; lia].
      left. eapply W4; eauto. }
    assert (B0 : nth_error (buf F) (blen s) = Some 78).
    { eapply ext_buf; eauto. cbn [buf s']. bufat 0. }
    assert (F0 : nth_error (final F) (blen s) = Some 78).
    { apply byte_plain; auto.
      - intros k o' c' Hin. specialize (Hent _ _ _ Hin). lia.
      - intros q w Hin. specialize (Hfix _ _ Hin). lia. }
    exists R. split.
    + destruct fuel as [|f]; [cbn in Hfu; lia|]. cbn [dec2]. rewrite F0. cbv zeta.
      change (128 <=? 78) with false. cbv iota. change (78 =? 78) with true. cbv iota.
      rewrite Hb'. reflexivity.
    + destruct HR as [Hlen HR]. split; [|exact HR].
      rewrite Hlen, Hb'. apply idx_eq. intros k o' c'' Hin _. specialize (Hent _ _ _ Hin). lia.
  - (* Int *)
    cbn [wobj erase] in *. destruct (lookup (VInt n) (seen s)) as [[o c]|] eqn:EL.
    { eapply dec_ref; eauto. }
    set (v := VInt n) in *.
    set (s' := mk (buf s ++ [105; n]) ((v,(length (buf s),0)) :: seen s) (fixes s)) in *.
    assert (Hb' : blen s' = blen s + 2) by (unfold blen, s'; cbn; rewrite app_length; cbn; lia).
    assert (Hs' : WF s').
    { generalize (wobj_wf (OInt n) s Hs). cbn [wobj]. fold v. now rewrite EL. }
    assert (Ho' : OpensLt opens s') by (intros x Hx; specialize (Ho x Hx); lia).
    assert (Hent : forall k o' c', In (k,(o',c')) (seen F) -> o' = blen s \/ o' + 2 <= blen s \/ blen s + 2 <= o').
    { intros k o' c' Hin. destruct (ext_entry _ _ _ _ _ Hs' Ho' He Hin) as [(c0 & H0 & _)|[[H0 _]|H0]].
      - destruct H0 as [E|H0]; [injection E as _ <- _; now left|]. right; left. eapply W1; eauto.
      - right; left; auto.
      - right; right; lia. }
    assert (Hfix : forall q w, In (q,w) (fixes F) -> q + 2 <= blen s \/ blen s + 2 <= q).
    { intros q w Hin. destruct (ext_fix _ _ _ _ Hs' He Hin) as [[H0 _]|H0]; [|right; lia].
      left. eapply W4; eauto. }
    destruct (flag_of_entry s' opens v (blen s) 0 He (or_introl eq_refl)) as (c' & _ & HinF & Hfl).
    assert (B0 : nth_error (buf F) (blen s) = Some 105).
    { eapply ext_buf; eauto. cbn [buf s']. bufat 0. }
    assert (B1 : nth_error (buf F) (blen s + 1) = Some n).
    { eapply ext_buf; eauto. cbn [buf s']. bufat 1. }
    assert (F0 : nth_error (final F) (blen s) = Some (if 0 <? c' then 105 + 128 else 105)).
    { eapply byte_start; eauto; [apply HF|]. intros q w Hin. specialize (Hfix _ _ Hin). lia. }
    assert (F1 : nth_error (final F) (blen s + 1) = Some n).
    { apply byte_plain; auto.
      - intros k o' c'' Hin. specialize (Hent _ _ _ Hin). lia.
      - intros q w Hin. specialize (Hfix _ _ Hin). lia. }
    assert (Hstep : idx F (blen s + 2) = idx F (blen s) + (if 0 <? c' then 1 else 0)).
    { eapply idx_step; eauto; [apply HF|lia|]. intros k o' c'' Hin Hne. specialize (Hent _ _ _ Hin). lia. }
    exists (if 0 <? c' then R ++ [Some v] else R). split.
    + destruct fuel as [|f]; [cbn in Hfu; lia|]. cbn [dec2]. rewrite F0. cbv zeta.
      destruct (0 <? c').
      * change (128 <=? 105 + 128) with true. cbv iota. change (105 + 128 - 128) with 105.
        change (105 =? 78) with false. change (105 =? 105) with true. cbv iota.
        rewrite F1, Hb'. reflexivity.
      * change (128 <=? 105) with false. cbv iota.
        change (105 =? 78) with false. change (105 =? 105) with true. cbv iota.
        rewrite F1, Hb'. reflexivity.
    + destruct HR as [Hlen HR']. split.
      * rewrite Hb', Hstep. destruct (0 <? c'); [rewrite app_length; cbn; lia | lia].
      * intros k o' c'' Hin Hf. destruct Hin as [E|Hin].
        -- injection E as <- <- <-. fold (blen s) in Hf |- *. rewrite Hfl in Hf. rewrite Hf.
           rewrite <- Hlen. rewrite nth_error_app2 by lia. now rewrite Nat.sub_diag.
        -- destruct (0 <? c'); [eapply Rok_app; eauto; split; eauto | eauto].
  - (* Tuple *)
    cbn [wobj erase] in *. destruct (lookup (VTup (map erase l)) (seen s)) as [[o c]|] eqn:EL.
    { eapply dec_ref; eauto. assert (X := hgt_pos (OTup l)). lia. }
    set (v := VTup (map erase l)) in *.
    set (a := blen s) in *.
    set (s0 := mk (buf s ++ [41; length l]) (seen s) (fixes s)) in *.
    set (s1 := fold_left (fun s x => wobj x s) l s0) in *.
    set (s' := mk (buf s1) ((v,(length (buf s),0)) :: seen s1) (fixes s1)) in *.
    change (length (buf s)) with a in *.
    assert (Hb0 : blen s0 = a + 2) by (unfold blen, s0, a; cbn; rewrite app_length; cbn; unfold blen; lia).
    assert (Hs0 : WF s0).
    { destruct Hs as [A1 A2 A3 A4 A7]. split; cbn; auto.
      - intros k o c H. specialize (A1 _ _ _ H). fold a in A1. rewrite app_length; cbn. unfold a, blen in *. lia.
      - intros q w H. specialize (A4 _ _ H). fold a in A4. rewrite app_length; cbn. unfold a, blen in *. lia. }
    assert (Hm01 : Mono s0 s1).
    { apply fold_mono. apply Forall_forall. intros y _. apply wobj_mono. }
    assert (Hb1 : a + 2 <= blen s1) by (rewrite <- Hb0; now apply Mono_blen).
    assert (Hs1 : WF s1).
    { apply fold_wf; auto. apply Forall_forall. intros y _. apply wobj_wf. }
    assert (Hs' : WF s').
    { generalize (wobj_wf (OTup l) s Hs). cbn [wobj]. fold v. now rewrite EL. }
    assert (Hb' : blen s' = blen s1) by reflexivity.
    assert (Ho' : OpensLt opens s') by (intros x Hx; specialize (Ho x Hx); fold a in Ho; lia).
    (* where F's entries and fixes can be, relative to the header at a *)
    assert (Hent : forall k o' c', In (k,(o',c')) (seen F) -> o' = a \/ o' + 2 <= a \/ a + 2 <= o').
    { intros k o' c' Hin. destruct (ext_entry _ _ _ _ _ Hs' Ho' He Hin) as [(c0 & H0 & _)|[[H0 _]|H0]].
      - destruct H0 as [E|H0]; [injection E as _ <- _; now left|]. right.
        destruct (M3 _ _ Hm01 _ _ _ H0) as [(c1 & H1)|H1]; [left|right; lia].
        cbn in H1. eapply (W1 _ Hs); eauto.
      - right; left. specialize (Ho _ H0). fold a in Ho. lia.
      - right; right. lia. }
    assert (Hfix : forall q w, In (q,w) (fixes F) -> q + 2 <= a \/ a + 2 <= q).
    { intros q w Hin. destruct (ext_fix _ _ _ _ Hs' He Hin) as [[H0 _]|H0]; [|right; lia].
      cbn in H0. destruct (M4 _ _ Hm01 _ _ H0) as [H1|H1]; [left|right; lia].
      cbn in H1. eapply (W4 _ Hs); eauto. }
    destruct (flag_of_entry s' opens v a 0 He (or_introl eq_refl)) as (c' & _ & HinF & Hfl).
    destruct (M1 _ _ Hm01) as [rest Erest].
    assert (B0 : nth_error (buf F) a = Some 41).
    { eapply ext_buf; eauto. cbn [buf s']. rewrite Erest. cbn [buf s0]. rewrite <- app_assoc. unfold a. bufat 0. }
    assert (B1 : nth_error (buf F) (a + 1) = Some (length l)).
    { eapply ext_buf; eauto. cbn [buf s']. rewrite Erest. cbn [buf s0]. rewrite <- app_assoc. unfold a. bufat 1. }
    assert (F0 : nth_error (final F) a = Some (if 0 <? c' then 41 + 128 else 41)).
    { eapply byte_start; eauto; [apply HF|]. intros q w Hin. specialize (Hfix _ _ Hin). lia. }
    assert (F1 : nth_error (final F) (a + 1) = Some (length l)).
    { apply byte_plain; auto.
      - intros k o' c'' Hin. specialize (Hent _ _ _ Hin). lia.
      - intros q w Hin. specialize (Hfix _ _ Hin). lia. }
    assert (Hstep : idx F (a + 2) = idx F a + (if 0 <? c' then 1 else 0)).
    { eapply idx_step; eauto; [apply HF|lia|]. intros k o' c'' Hin Hne. specialize (Hent _ _ _ Hin). lia. }
    destruct HR as [Hlen HR']. fold a in Hlen.
    set (R1 := if 0 <? c' then R ++ [None] else R).
    assert (HR1 : Rok s0 F R1).
    { split.
      - rewrite Hb0, Hstep. unfold R1. destruct (0 <? c'); [rewrite app_length; cbn; lia|lia].
      - intros k o' c'' Hin Hf. cbn in Hin. unfold R1.
        destruct (0 <? c'); [eapply Rok_app; eauto; split; eauto | eauto]. }
    assert (Ho0 : OpensLt (a :: opens) s0).
    { intros x [<-|Hx]; [lia|]. specialize (Ho x Hx). fold a in Ho. lia. }
    assert (He1 : Ext s1 F (a :: opens)).
    { destruct He as [X1 X2 X3 X4 X5]. split; auto.
      - intros k o' c'' Hin. apply X2. now right.
      - intros k o' c'' Hin. destruct (X3 _ _ _ Hin) as [(c0 & [E|H0])|[H0|H0]].
        + injection E as _ <- _. right; left; now left.
        + left; eauto.
        + right; left; now right.
        + right; right; auto. }
    destruct fuel as [|f]; [cbn in Hfu; lia|].
    assert (Hh : forall x, In x l -> hgt x <= f).
    { intros x Hx. apply hgt_child in Hx. lia. }
    destruct (dec_list l IH s0 (a :: opens) R1 f Hs0 Ho0 He1 HR1 Hh) as (R2 & D2 & [Hlen2 HR2]).
    fold s1 in D2, Hlen2, HR2. rewrite Hb0 in D2.
    exists (if 0 <? c' then set_nth (length R) (Some v) R2 else R2). split.
    + cbn [dec2]. rewrite F0. cbv zeta. unfold R1 in D2.
      destruct (0 <? c').
      * change (128 <=? 41 + 128) with true. cbv iota. change (41 + 128 - 128) with 41.
        change (41 =? 78) with false. change (41 =? 105) with false. change (41 =? 114) with false.
        change (41 =? 41) with true. cbv iota.
        rewrite F1, D2. reflexivity.
      * change (128 <=? 41) with false. cbv iota.
        change (41 =? 78) with false. change (41 =? 105) with false. change (41 =? 114) with false.
        change (41 =? 41) with true. cbv iota.
        rewrite F1, D2. reflexivity.
    + assert (Hlt : 0 <? c' = true -> length R < length R2).
      { intros Ec. rewrite Hlen2. assert (X := idx_mono F (a + 2) (blen s1) Hb1).
        rewrite Hstep, Ec in X. fold a in Hlen. lia. }
      split.
      * rewrite Hb'. destruct (0 <? c'); [rewrite set_nth_length|]; auto.
      * intros k o' c'' Hin Hf. destruct Hin as [E|Hin].
        -- injection E as <- <- <-. rewrite Hfl in Hf. rewrite Hf.
           fold a in Hlen. rewrite <- Hlen. apply set_nth_same. auto.
        -- specialize (HR2 _ _ _ Hin Hf).
           destruct (0 <? c') eqn:Ec; [|exact HR2].
           rewrite set_nth_other; auto.
           (* idx F o' <> idx F a since o' <> a and both flagged *)
           assert (Hne : o' <> a).
           { destruct Hs' as [_ _ A3 _ _]. cbn in A3. inversion A3 as [|? ? Hn _]; subst.
             intros ->. apply Hn. change a with (eoff (k,(a,c''))). now apply in_map. }
           destruct (flag_of_entry s1 (a :: opens) k o' c'' He1 Hin) as (c1 & _ & HinF1 & Hfl1).
           rewrite Hfl1 in Hf. apply Nat.ltb_lt in Hf. apply Nat.ltb_lt in Ec.
           fold a in Hlen. rewrite Hlen.
           destruct (Nat.lt_ge_cases o' a) as [Hl|Hg].
           ++ assert (X := idx_lt F k o' c1 a HinF1 Hf Hl). lia.
           ++ assert (X := idx_lt F v a c' o' HinF Ec ltac:(lia)). lia.
  - (* Ref *)
    cbn [wobj erase hgt] in *. eapply IH; eauto.
Qed.

End Main.

(* ---------- top level ---------- *)
Definition s_init := mk [] [] [].
Lemma mapi_length {A B} (f:nat->A->B) l : forall k, length (mapi f k l) = length l.
Proof. induction l; intros k; cbn; auto. Qed.

Theorem writer_correct o :
  exists R, dec2 (hgt o) (final (wobj o s_init)) 0 [] = Some (erase o, length (final (wobj o s_init)), R).
Proof.
  set (F := wobj o s_init).
  assert (Hs : WF s_init) by (split; cbn; try constructor; intros; tauto).
  assert (HF : WF F) by now apply wobj_wf.
  assert (He : Ext F F []).
  { split; [exists []; now rewrite app_nil_r | intros v o' c H; exists c; split; [lia|auto] | eauto | eauto | eauto]. }
  assert (HR : Rok s_init F []).
  { split; [|cbn; tauto]. cbn. unfold idx. symmetry. apply length_zero_iff_nil.
    induction (seen F) as [|[v [o' c]] r IH]; cbn; auto. }
  destruct (main F HF o s_init [] [] (hgt o) Hs ltac:(intros x []) He HR (le_n _)) as (R' & D & _).
  exists R'. cbn in D. rewrite D. unfold final. rewrite mapi_length. reflexivity.
Qed.

Print Assumptions writer_correct.
