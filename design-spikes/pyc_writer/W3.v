From Coq Require Import List Arith Bool Lia.
Import ListNotations.
Require Import W2.

Definition blen (s:st) := length (buf s).

Fixpoint vsize (v:value) : nat :=
  match v with
  | VTup l => S ((fix go (l:list value) := match l with [] => 0 | x::r => vsize x + go r end) l)
  | _ => 1
  end.

Lemma vsize_child x l : In x l -> vsize x < vsize (VTup l).
Proof.
  cbn. induction l as [|y r IH]; cbn; [tauto|]. intros [->|H]; [lia|]. specialize (IH H). lia.
Qed.

Record WF (s:st) : Prop := {
  W1 : forall v o c, In (v,(o,c)) (seen s) -> o + 2 <= blen s;
  W2 : NoDup (keys (seen s));
  W3 : NoDup (offs (seen s));
  W4 : forall q v, In (q,v) (fixes s) -> q + 2 <= blen s;
  W7 : NoDup (map fst (fixes s)) }.

Record Mono (s s':st) : Prop := {
  M1 : exists rest, buf s' = buf s ++ rest;
  M2 : forall v o c, In (v,(o,c)) (seen s) -> exists c', c <= c' /\ In (v,(o,c')) (seen s');
  M3 : forall v o c, In (v,(o,c)) (seen s') -> (exists c0, In (v,(o,c0)) (seen s)) \/ (blen s <= o);
  M4 : forall q v, In (q,v) (fixes s') -> In (q,v) (fixes s) \/ blen s <= q;
  M5 : forall q v, In (q,v) (fixes s) -> In (q,v) (fixes s') }.

Lemma Mono_blen s s' : Mono s s' -> blen s <= blen s'.
Proof. intros [[rest E] _ _ _ _]. unfold blen. rewrite E, app_length. lia. Qed.

Lemma Mono_refl s : Mono s s.
Proof.
  split; [exists []; now rewrite app_nil_r | intros v o c H; exists c; split; [lia|auto] | eauto | eauto | eauto].
Qed.

Lemma Mono_trans a b c : Mono a b -> Mono b c -> Mono a c.
Proof.
  intros H1 H2. assert (Hl := Mono_blen _ _ H1).
  destruct H1 as [[r1 E1] A2 A3 A4 A5], H2 as [[r2 E2] B2 B3 B4 B5]. split.
  - exists (r1 ++ r2). now rewrite E2, E1, app_assoc.
  - intros v o c0 H. destruct (A2 _ _ _ H) as (c1 & ? & H1). destruct (B2 _ _ _ H1) as (c2 & ? & ?).
    exists c2; split; [lia|auto].
  - intros v o c0 H. destruct (B3 _ _ _ H) as [(c1 & H1)|?]; [|right; lia].
    destruct (A3 _ _ _ H1) as [?|?]; [left|right]; auto.
  - intros q v H. destruct (B4 _ _ H) as [H1|?]; [|right; lia]. apply A4 in H1. tauto.
  - auto.
Qed.

Lemma fold_mono (l: list obj) :
  Forall (fun x => forall s, Mono s (wobj x s)) l ->
  forall s, Mono s (fold_left (fun s x => wobj x s) l s).
Proof.
  induction 1 as [|x r Hx Hr IH]; intros s; cbn; [apply Mono_refl|].
  eapply Mono_trans; [apply Hx|apply IH].
Qed.

Lemma wref_mono v s : Mono s (wref v s).
Proof.
  split; cbn.
  - eauto.
  - intros k o c H. now apply bump_mono.
  - intros k o c H. left. destruct (bump_inv _ _ _ _ _ H) as (c0 & _ & ?). eauto.
  - intros q w [E|H]; [injection E as <- <-; right; unfold blen; lia | now left].
  - intros; now right.
Qed.

Lemma wobj_mono o : forall s, Mono s (wobj o s).
Proof.
  induction o as [|n|l IH|t IH] using obj_ind'; intros s; cbn.
  - split; cbn; [eauto | intros v o c H; exists c; split; [lia|auto] | eauto | eauto | eauto].
  - destruct (lookup (VInt n) (seen s)); [apply wref_mono|].
    split; cbn; [eauto| | |eauto|eauto].
    + intros v o c H. exists c; split; [lia|now right].
    + intros v o c [E|H]; [injection E as <- <- <-; right; unfold blen; lia | left; eauto].
  - destruct (lookup (VTup (map erase l)) (seen s)); [apply wref_mono|].
    set (s0 := mk (buf s ++ [41; length l]) (seen s) (fixes s)).
    assert (H0 : Mono s s0).
    { split; cbn; [eauto | intros v o c H; exists c; split; [lia|auto] | eauto | eauto | eauto]. }
    assert (H1 := fold_mono l IH s0).
    set (s1 := fold_left (fun s x => wobj x s) l s0) in *.
    assert (H01 := Mono_trans _ _ _ H0 H1). clearbody s1. clear H0 H1.
    destruct H01 as [[rest E] A2 A3 A4 A5].
    split; cbn; [eauto | | | eauto | eauto].
    + intros v o c H. destruct (A2 _ _ _ H) as (c' & ? & ?). exists c'; split; [lia|now right].
    + intros v o c [E'|H]; [injection E' as <- <- <-; right; unfold blen; lia | eauto].
  - apply IH.
Qed.

(* new keys are no bigger than the object being written *)
Definition NewKeys (o:obj) (s s':st) :=
  forall k off c, In (k,(off,c)) (seen s') -> (exists c0, In (k,(off,c0)) (seen s)) \/ vsize k <= vsize (erase o).

Lemma fold_newkeys (l: list obj) (bound:nat) :
  Forall (fun x => forall s, NewKeys x s (wobj x s)) l ->
  (forall x, In x l -> vsize (erase x) <= bound) ->
  forall s k off c, In (k,(off,c)) (seen (fold_left (fun s x => wobj x s) l s)) ->
     (exists c0, In (k,(off,c0)) (seen s)) \/ vsize k <= bound.
Proof.
  induction 1 as [|x r Hx Hr IH]; intros Hb s k off c; cbn; [eauto|].
  intros H. destruct (IH (fun y Hy => Hb y (or_intror Hy)) _ _ _ _ H) as [(c0 & H0)|?]; [|tauto].
  destruct (Hx s _ _ _ H0) as [?|?]; [tauto|]. right. specialize (Hb x (or_introl eq_refl)). lia.
Qed.

Lemma wobj_newkeys o : forall s, NewKeys o s (wobj o s).
Proof.
  induction o as [|n|l IH|t IH] using obj_ind'; intros s; unfold NewKeys; cbn -[vsize].
  - eauto.
  - destruct (lookup (VInt n) (seen s)); cbn -[vsize].
    + intros k off c H. left. destruct (bump_inv _ _ _ _ _ H) as (c0 & _ & ?). eauto.
    + intros k off c [E|H]; [injection E as <- _ _; right; cbn; lia | eauto].
  - destruct (lookup (VTup (map erase l)) (seen s)); cbn -[vsize].
    + intros k off c H. left. destruct (bump_inv _ _ _ _ _ H) as (c0 & _ & ?). eauto.
    + intros k off c [E|H]; [injection E as <- _ _; right; lia|].
      assert (Hb : forall x, In x l -> vsize (erase x) <= vsize (VTup (map erase l))).
      { intros x Hx. apply Nat.lt_le_incl, vsize_child, in_map, Hx. }
      destruct (fold_newkeys l _ IH Hb _ _ _ _ H) as [?|?]; cbn in *; eauto.
  - apply IH.
Qed.

Lemma fold_wf (l: list obj) :
  Forall (fun x => forall s, WF s -> WF (wobj x s)) l ->
  forall s, WF s -> WF (fold_left (fun s x => wobj x s) l s).
Proof. induction 1 as [|x r Hx Hr IH]; intros s H; cbn; auto. Qed.

Lemma wref_wf v s : WF s -> WF (wref v s).
Proof.
  intros [A1 A2 A3 A4 A7]. split; cbn; unfold blen in *; cbn; rewrite ?app_length; cbn.
  - intros k o c H. destruct (bump_inv _ _ _ _ _ H) as (c0 & _ & H0). specialize (A1 _ _ _ H0). lia.
  - now rewrite bump_keys.
  - now rewrite bump_offs.
  - intros q w [E|H]; [injection E as <- _; lia | specialize (A4 _ _ H); lia].
  - constructor; auto. intros Hin. apply in_map_iff in Hin as ([q w] & E & Hin). cbn in E; subst.
    specialize (A4 _ _ Hin). lia.
Qed.

Lemma wobj_wf o : forall s, WF s -> WF (wobj o s).
Proof.
  induction o as [|n|l IH|t IH] using obj_ind'; intros s Hs; cbn.
  - destruct Hs as [A1 A2 A3 A4 A7]. split; cbn; unfold blen in *; cbn; rewrite ?app_length; cbn; auto.
    + intros v o c H. specialize (A1 _ _ _ H). lia.
    + intros q v H. specialize (A4 _ _ H). lia.
  - destruct (lookup (VInt n) (seen s)) eqn:EL; [now apply wref_wf|].
    destruct Hs as [A1 A2 A3 A4 A7]. split; cbn; unfold blen in *; cbn; rewrite ?app_length; cbn; auto.
    + intros v o c [E|H]; [injection E as <- <- <-; lia | specialize (A1 _ _ _ H); lia].
    + constructor; auto. now apply lookup_None.
    + constructor; auto. intros Hin. apply in_map_iff in Hin as ([k [o c]] & E & Hin). cbn in E; subst.
      specialize (A1 _ _ _ Hin). lia.
    + intros q v H. specialize (A4 _ _ H). lia.
  - destruct (lookup (VTup (map erase l)) (seen s)) eqn:EL; [now apply wref_wf|].
    set (s0 := mk (buf s ++ [41; length l]) (seen s) (fixes s)).
    assert (Hs0 : WF s0).
    { destruct Hs as [A1 A2 A3 A4 A7]. split; cbn; unfold blen in *; cbn; rewrite ?app_length; cbn; auto.
      - intros v o c H. specialize (A1 _ _ _ H). lia.
      - intros q v H. specialize (A4 _ _ H). lia. }
    assert (Hm := fold_mono l (Forall_impl _ (fun x _ => wobj_mono x) IH) s0).
    assert (Hnk := fold_newkeys l (vsize (VTup (map erase l)) - 1)
                     (Forall_impl _ (fun x _ => wobj_newkeys x) IH)).
    assert (Hw := fold_wf l IH s0 Hs0).
    set (s1 := fold_left (fun s x => wobj x s) l s0) in *.
    assert (Hb : blen s0 <= blen s1) by now apply Mono_blen.
    assert (Hb0 : blen s0 = blen s + 2) by (unfold blen, s0; cbn; rewrite app_length; cbn; lia).
    destruct Hw as [B1 B2 B3 B4 B7]. destruct Hm as [_ _ C3 _ _].
    split; cbn; fold (blen s1); auto.
    + intros v o c [E|H]; [injection E as <- <- <-; unfold blen in *; lia | eauto].
    + constructor; auto. intros Hin. apply in_map_iff in Hin as ([k [o c]] & E & Hin). cbn in E; subst.
      destruct (Hnk (fun x Hx => ltac:(apply in_map with (f:=erase) in Hx; apply vsize_child in Hx; lia)) s0 _ _ _ Hin)
        as [(c0 & H0)|Hsz]; [|assert (1 <= vsize (VTup (map erase l))) by (cbn; lia); lia].
      apply lookup_None in EL. apply EL. cbn in H0. change (VTup (map erase l)) with (fst (VTup (map erase l),(o,c0))).
      now apply in_map.
    + constructor; auto. intros Hin. apply in_map_iff in Hin as ([k [o c]] & E & Hin). cbn in E; subst.
      destruct (C3 _ _ _ Hin) as [(c0 & H0)|Hge]; [|unfold blen in *; lia].
      cbn in H0. destruct Hs as [A1 _ _ _ _]. specialize (A1 _ _ _ H0). unfold blen in *; lia.
  - auto.
Qed.
