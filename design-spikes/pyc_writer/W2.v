From Coq Require Import List Arith Bool Lia.
Import ListNotations.

(* ---------- reduced marshal language ---------- *)
Inductive value := VNone | VInt (n:nat) | VTup (l: list value).
Inductive obj := ONone | OInt (n:nat) | OTup (l: list obj) | ORef (t: obj).

Fixpoint erase (o:obj) : value :=
  match o with
  | ONone => VNone | OInt n => VInt n
  | OTup l => VTup (map erase l) | ORef t => erase t
  end.

Section value_ind'.
  Variable P : value -> Prop.
  Hypothesis HN : P VNone.
  Hypothesis HI : forall n, P (VInt n).
  Hypothesis HT : forall l, Forall P l -> P (VTup l).
  Fixpoint value_ind' (v:value) : P v :=
    match v with
    | VNone => HN | VInt n => HI n
    | VTup l => HT l ((fix go (l:list value) : Forall P l :=
                         match l with [] => Forall_nil _ | x::r => Forall_cons _ (value_ind' x) (go r) end) l)
    end.
End value_ind'.

Section obj_ind'.
  Variable P : obj -> Prop.
  Hypothesis HN : P ONone.
  Hypothesis HI : forall n, P (OInt n).
  Hypothesis HT : forall l, Forall P l -> P (OTup l).
  Hypothesis HR : forall t, P t -> P (ORef t).
  Fixpoint obj_ind' (v:obj) : P v :=
    match v with
    | ONone => HN | OInt n => HI n
    | OTup l => HT l ((fix go (l:list obj) : Forall P l :=
                         match l with [] => Forall_nil _ | x::r => Forall_cons _ (obj_ind' x) (go r) end) l)
    | ORef t => HR t (obj_ind' t)
    end.
End obj_ind'.

Fixpoint value_eqb (a b: value) {struct a} : bool :=
  match a, b with
  | VNone, VNone => true
  | VInt n, VInt m => n =? m
  | VTup xs, VTup ys =>
      (fix go (xs ys: list value) : bool :=
         match xs, ys with
         | [], [] => true
         | x::xs', y::ys' => value_eqb x y && go xs' ys'
         | _, _ => false
         end) xs ys
  | _, _ => false
  end.

Lemma value_eqb_spec a b : value_eqb a b = true <-> a = b.
Proof.
  revert b. induction a as [|n|l IH] using value_ind'; intros b; destruct b as [|m|l']; cbn; try (split; congruence).
  - rewrite Nat.eqb_eq. split; congruence.
  - revert l'. induction IH as [|x xs Hx Hxs IHl]; intros l'; destruct l' as [|y ys]; try (split; congruence).
    rewrite andb_true_iff, Hx. specialize (IHl ys). rewrite IHl.
    split; [intros [-> E]; injection E as ->; reflexivity | intros E; injection E as -> ->; split; reflexivity].
Qed.

(* ---------- writer (mirrors PycWriter) ---------- *)
Definition entry := (value * (nat * nat))%type.   (* value -> (offset, refcount) *)
Record st := mk { buf: list nat; seen: list entry; fixes: list (nat * value) }.

Fixpoint lookup (v:value) (s: list entry) : option (nat*nat) :=
  match s with [] => None | (k,x)::r => if value_eqb k v then Some x else lookup v r end.
Fixpoint bump (v:value) (s: list entry) : list entry :=
  match s with [] => [] | (k,(o,c))::r => if value_eqb k v then (k,(o,S c))::r else (k,(o,c))::bump v r end.

Definition wref (v:value) (s:st) : st :=
  mk (buf s ++ [114; 0]) (bump v (seen s)) ((length (buf s), v) :: fixes s).

Fixpoint wobj (o:obj) (s:st) {struct o} : st :=
  match o with
  | ORef t => wobj t s
  | ONone => mk (buf s ++ [78]) (seen s) (fixes s)
  | OInt n =>
      let v := VInt n in
      match lookup v (seen s) with
      | Some _ => wref v s
      | None => mk (buf s ++ [105; n]) ((v,(length (buf s),0)) :: seen s) (fixes s)
      end
  | OTup l =>
      let v := VTup (map erase l) in
      match lookup v (seen s) with
      | Some _ => wref v s
      | None =>
          let a := length (buf s) in
          let s1 := fold_left (fun s x => wobj x s) l (mk (buf s ++ [41; length l]) (seen s) (fixes s)) in
          mk (buf s1) ((v,(a,0)) :: seen s1) (fixes s1)
      end
  end.

(* ---------- finish: flags and reference numbers, characterised pointwise ---------- *)
Definition flaggedb (F:st) (off:nat) : bool :=
  existsb (fun e : entry => (fst (snd e) =? off) && (0 <? snd (snd e))) (seen F).
Definition idx (F:st) (off:nat) : nat :=
  length (filter (fun e : entry => (fst (snd e) <? off) && (0 <? snd (snd e))) (seen F)).
Definition offof (F:st) (v:value) : nat :=
  match lookup v (seen F) with Some (o,_) => o | None => 0 end.
Definition fbyte (F:st) (i b:nat) : nat :=
  if flaggedb F i then b + 128
  else match find (fun qv : nat*value => S (fst qv) =? i) (fixes F) with
       | Some (q,v) => idx F (offof F v)
       | None => b
       end.
Fixpoint mapi {A B} (f: nat -> A -> B) (i:nat) (l:list A) : list B :=
  match l with [] => [] | x::r => f i x :: mapi f (S i) r end.
Definition final (F:st) : list nat := mapi (fbyte F) 0 (buf F).

(* ---------- reference decoder (CPython rules) ---------- *)
Fixpoint set_nth {A} (n:nat) (x:A) (l:list A) : list A :=
  match l, n with
  | [], _ => [] | _::r, 0 => x::r | y::r, S n' => y :: set_nth n' x r
  end.

Fixpoint dec (fuel:nat) (B: list nat) (p:nat) (R: list (option value))
  : option (value * nat * list (option value)) :=
  match fuel with
  | 0 => None
  | S f =>
    match nth_error B p with
    | None => None
    | Some b =>
      let flag := 128 <=? b in
      let t := if flag then b - 128 else b in
      if t =? 78 then Some (VNone, p+1, R)
      else if t =? 105 then
        match nth_error B (p+1) with
        | Some n => let v := VInt n in Some (v, p+2, if flag then R ++ [Some v] else R)
        | None => None
        end
      else if t =? 114 then
        match nth_error B (p+1) with
        | Some k => match nth_error R k with Some (Some v) => Some (v, p+2, R) | _ => None end
        | None => None
        end
      else if t =? 41 then
        match nth_error B (p+1) with
        | Some n =>
          let R1 := if flag then R ++ [None] else R in
          match (fix decl (n p:nat) (R: list (option value)) : option (list value * nat * list (option value)) :=
                   match n with
                   | 0 => Some ([], p, R)
                   | S n' => match dec f B p R with
                             | Some (v, p1, R1) =>
                                 match decl n' p1 R1 with
                                 | Some (vs, p2, R2) => Some (v::vs, p2, R2)
                                 | None => None
                                 end
                             | None => None
                             end
                   end) n (p+2) R1 with
          | Some (vs, p', R2) =>
              let v := VTup vs in
              Some (v, p', if flag then set_nth (length R) (Some v) R2 else R2)
          | None => None
          end
        | None => None
        end
      else None
    end
  end.


(* ================= helper lemmas ================= *)
Definition eoff (e:entry) := fst (snd e).
Definition ecnt (e:entry) := snd (snd e).
Definition keys (s: list entry) := map fst s.
Definition offs (s: list entry) := map eoff s.

Lemma value_eqb_refl v : value_eqb v v = true.
Proof. apply value_eqb_spec; reflexivity. Qed.

Lemma lookup_In v s x : lookup v s = Some x -> In (v,x) s.
Proof.
  induction s as [|[k y] r IH]; cbn; [discriminate|].
  destruct (value_eqb k v) eqn:E.
  - apply value_eqb_spec in E; subst. intros [= ->]. now left.
  - intros H; right; auto.
Qed.

Lemma lookup_None v s : lookup v s = None -> ~ In v (keys s).
Proof.
  induction s as [|[k y] r IH]; cbn; [tauto|].
  destruct (value_eqb k v) eqn:E; [discriminate|].
  intros H [->|Hin]; [rewrite value_eqb_refl in E; discriminate | now apply IH].
Qed.

Lemma lookup_NoDup v x s : NoDup (keys s) -> In (v,x) s -> lookup v s = Some x.
Proof.
  induction s as [|[k y] r IH]; cbn; [tauto|].
  intros ND [E|Hin].
  - injection E as -> ->. now rewrite value_eqb_refl.
  - inversion ND as [|? ? Hn ND']; subst.
    destruct (value_eqb k v) eqn:E.
    + apply value_eqb_spec in E; subst. exfalso; apply Hn. change v with (fst (v,x)). now apply in_map.
    + auto.
Qed.

Lemma bump_keys v s : keys (bump v s) = keys s.
Proof. unfold keys. induction s as [|[k [o c]] r IH]; cbn; [easy|]. destruct (value_eqb k v); cbn; [reflexivity|now rewrite IH]. Qed.
Lemma bump_offs v s : offs (bump v s) = offs s.
Proof. unfold offs. induction s as [|[k [o c]] r IH]; cbn; [easy|]. destruct (value_eqb k v); cbn; [reflexivity|now rewrite IH]. Qed.

Lemma bump_mono v s k o c : In (k,(o,c)) s -> exists c', c <= c' /\ In (k,(o,c')) (bump v s).
Proof.
  induction s as [|[k0 [o0 c0]] r IH]; cbn; [tauto|].
  intros [E|Hin].
  - injection E as -> -> ->. destruct (value_eqb k v); [exists (S c)|exists c]; split; try lia; now left.
  - destruct (value_eqb k0 v).
    + exists c; split; [lia|now right].
    + destruct (IH Hin) as (c' & ? & ?). exists c'; split; [lia|now right].
Qed.

Lemma bump_inv v s k o c' : In (k,(o,c')) (bump v s) -> exists c, c <= c' /\ In (k,(o,c)) s.
Proof.
  induction s as [|[k0 [o0 c0]] r IH]; cbn; [tauto|].
  destruct (value_eqb k0 v).
  - intros [E|Hin].
    + injection E as -> -> <-. exists c0; split; [lia|now left].
    + exists c'; split; [lia|now right].
  - intros [E|Hin].
    + injection E as -> -> ->. exists c'; split; [lia|now left].
    + destruct (IH Hin) as (c & ? & ?). exists c; split; [lia|now right].
Qed.

Lemma bump_pos v s o c : lookup v s = Some (o,c) -> In (v,(o,S c)) (bump v s).
Proof.
  induction s as [|[k0 [o0 c0]] r IH]; cbn; [discriminate|].
  destruct (value_eqb k0 v) eqn:E.
  - apply value_eqb_spec in E; subst. intros [= -> ->]. now left.
  - intros H; right; auto.
Qed.

Lemma nth_error_mapi {A B} (f:nat->A->B) l : forall k i,
  nth_error (mapi f k l) i = option_map (f (k+i)) (nth_error l i).
Proof.
  induction l as [|x r IH]; intros k i; destruct i; cbn; try reflexivity.
  - now rewrite Nat.add_0_r.
  - rewrite IH. now rewrite Nat.add_succ_r.
Qed.

Lemma final_nth F i : nth_error (final F) i = option_map (fbyte F i) (nth_error (buf F) i).
Proof. unfold final. now rewrite nth_error_mapi. Qed.

Lemma filter_len_le {A} (P Q: A -> bool) l :
  (forall x, In x l -> P x = true -> Q x = true) -> length (filter P l) <= length (filter Q l).
Proof.
  induction l as [|x r IH]; cbn; intros H; [lia|].
  assert (IH' := IH (fun y Hy => H y (or_intror Hy))).
  destruct (P x) eqn:EP.
  - rewrite (H x (or_introl eq_refl) EP). cbn; lia.
  - destruct (Q x); cbn; lia.
Qed.

Lemma filter_len_lt {A} (P Q: A -> bool) l x :
  (forall y, In y l -> P y = true -> Q y = true) -> In x l -> P x = false -> Q x = true ->
  length (filter P l) < length (filter Q l).
Proof.
  induction l as [|y r IH]; cbn; intros H Hin HP HQ; [tauto|].
  assert (Hle := filter_len_le P Q r (fun z Hz => H z (or_intror Hz))).
  destruct Hin as [->|Hin].
  - rewrite HP, HQ. cbn; lia.
  - assert (IH' := IH (fun z Hz => H z (or_intror Hz)) Hin HP HQ).
    destruct (P y) eqn:EP.
    + rewrite (H y (or_introl eq_refl) EP). cbn; lia.
    + destruct (Q y); cbn; lia.
Qed.

Lemma filter_len_eq {A} (P Q: A -> bool) l :
  (forall x, In x l -> P x = Q x) -> length (filter P l) = length (filter Q l).
Proof.
  intros H. apply Nat.le_antisymm; apply filter_len_le; intros x Hx; rewrite (H x Hx); auto.
Qed.

Lemma set_nth_length {A} n (x:A) l : length (set_nth n x l) = length l.
Proof. revert n; induction l as [|y r IH]; intros [|n]; cbn; auto. Qed.
Lemma set_nth_same {A} n (x:A) l : n < length l -> nth_error (set_nth n x l) n = Some x.
Proof. revert n; induction l as [|y r IH]; intros [|n]; cbn; try lia; auto. intros; apply IH; lia. Qed.
Lemma set_nth_other {A} n m (x:A) l : n <> m -> nth_error (set_nth n x l) m = nth_error l m.
Proof. revert n m; induction l as [|y r IH]; intros [|n] [|m]; cbn; try tauto; auto. Qed.

Lemma find_unique {A} (f: (nat*A) -> bool) l q v :
  NoDup (map fst l) -> In (q,v) l -> f (q,v) = true ->
  (forall q' v', In (q',v') l -> f (q',v') = true -> q' = q) ->
  find f l = Some (q,v).
Proof.
  induction l as [|[q0 v0] r IH]; cbn; intros ND Hin Hf Hu; [tauto|].
  inversion ND as [|? ? Hn ND']; subst.
  destruct Hin as [E|Hin].
  - injection E as -> ->. now rewrite Hf.
  - destruct (f (q0,v0)) eqn:E0.
    + assert (q0 = q) by (apply (Hu q0 v0); auto). subst.
      exfalso; apply Hn. change q with (fst (q,v)). now apply in_map.
    + apply IH; auto. intros; eapply Hu; eauto.
Qed.

Lemma find_none {A} (f: A -> bool) l : (forall x, In x l -> f x = false) -> find f l = None.
Proof. induction l as [|x r IH]; cbn; intros H; [easy|]. rewrite (H x (or_introl eq_refl)). apply IH; auto. Qed.
