From Coq Require Import List Arith Bool Lia.
Import ListNotations.
Require Import W2.

(* P3: the writer depends on its argument only through [erase] — hence two streams
   that decode to the same tree are rewritten to the same bytes (C01 for .pyc) and
   re-processing the output changes nothing (C07 for .pyc). *)

Fixpoint wval (v:value) (s:st) {struct v} : st :=
  match v with
  | VNone => mk (buf s ++ [78]) (seen s) (fixes s)
  | VInt n =>
      match lookup v (seen s) with
      | Some _ => wref v s
      | None => mk (buf s ++ [105; n]) ((v,(length (buf s),0)) :: seen s) (fixes s)
      end
  | VTup l =>
      match lookup v (seen s) with
      | Some _ => wref v s
      | None =>
          let a := length (buf s) in
          let s1 := fold_left (fun s x => wval x s) l (mk (buf s ++ [41; length l]) (seen s) (fixes s)) in
          mk (buf s1) ((v,(a,0)) :: seen s1) (fixes s1)
      end
  end.

Lemma fold_map_ext (l: list obj) :
  Forall (fun x => forall s, wobj x s = wval (erase x) s) l ->
  forall s, fold_left (fun s x => wobj x s) l s = fold_left (fun s x => wval x s) (map erase l) s.
Proof.
  induction 1 as [|x r Hx Hr IH]; intros s; cbn; [reflexivity|]. now rewrite Hx, IH.
Qed.

Theorem wobj_erase o : forall s, wobj o s = wval (erase o) s.
Proof.
  induction o as [|n|l IH|t IH] using obj_ind'; intros s; cbn [wobj erase wval]; try reflexivity.
  - destruct (lookup (VTup (map erase l)) (seen s)); [reflexivity|].
    rewrite (fold_map_ext l IH). now rewrite map_length.
  - apply IH.
Qed.

Corollary same_tree_same_bytes o o' s : erase o = erase o' -> final (wobj o s) = final (wobj o' s).
Proof. intros E. now rewrite !wobj_erase, E. Qed.

Print Assumptions same_tree_same_bytes.
