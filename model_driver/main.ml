(* Driver for the extracted models.  Same line protocol as the Rust harness:
   <id> <handler> <epoch|-> <check> <nlink> <hex|-> [mtime]   ->   <id> <class> <hex|-> *)
open Model

let rec pos_of_int n = if n = 1 then XH else if n land 1 = 1 then XI (pos_of_int (n lsr 1)) else XO (pos_of_int (n lsr 1))
let n_of_int n = if n = 0 then N0 else Npos (pos_of_int n)
let rec int_of_pos = function XH -> 1 | XO p -> 2 * int_of_pos p | XI p -> 2 * int_of_pos p + 1
let int_of_n = function N0 -> 0 | Npos p -> int_of_pos p
let z_of_int n = if n = 0 then Z0 else if n > 0 then Zpos (pos_of_int n) else Zneg (pos_of_int (-n))
let rec pos_of_int64 (n : int64) =
  if n = 1L then XH
  else if Int64.logand n 1L = 1L then XI (pos_of_int64 (Int64.shift_right_logical n 1))
  else XO (pos_of_int64 (Int64.shift_right_logical n 1))
(* decimal string in the i64 range *)
let z_of_string s =
  let n = Int64.of_string s in
  if n = 0L then Z0 else if n > 0L then Zpos (pos_of_int64 n) else Zneg (pos_of_int64 (Int64.neg n))

let unhex s =
  if s = "-" then [] else begin
    let n = String.length s / 2 in
    let rec go i acc = if i < 0 then acc else go (i - 1) (n_of_int (int_of_string ("0x" ^ String.sub s (2 * i) 2)) :: acc) in
    go (n - 1) []
  end

let hex l =
  match l with
  | [] -> "-"
  | _ ->
    let b = Buffer.create 1024 in
    List.iter (fun x -> Buffer.add_string b (Printf.sprintf "%02x" (int_of_n x))) l;
    Buffer.contents b

let class_name = function
  | Ignored -> "Ignored" | Noop -> "Noop" | Replaced -> "Replaced" | Rewritten -> "Rewritten"
  | BadFormat -> "BadFormat" | Error -> "Error"

let report id nlink_one check x o =
  let cls = match class_of nlink_one o with Some c -> class_name c | None -> "Panic" in
  let after = if check then x else bytes_after x o in
  Printf.printf "%s %s %s\n" id cls (hex after)

let prof = if Array.length Sys.argv > 2 && Sys.argv.(2) = "release" then Release else Debug

let () =
  let ic = open_in Sys.argv.(1) in
  (try
    while true do
      let line = input_line ic in
      match String.split_on_char ' ' (String.trim line) with
      | id :: handler :: epoch :: check :: nlink :: data :: _rest ->
        let epoch = if epoch = "-" then None else Some (z_of_string epoch) in
        let check = (check = "1") in
        let nlink_one = (nlink = "1") in
        let x = unhex data in
        (match handler with
         | "gzip" ->
           (match gzip_init epoch with
            | None -> Printf.printf "%s InitFail %s\n" id (hex x)
            | Some e -> report id nlink_one check x (gzip_process e x))
         | "ar" -> report id nlink_one check x (ar_process epoch x)
         | _ -> Printf.printf "%s NoModel -\n" id)
      | _ -> ()
    done
  with End_of_file -> ());
  close_in ic
