(* Driver for the extracted models.  Same line protocol as the Rust harness:
   <id> <handler> <epoch|-> <check> <nlink> <hex|-> [mtime]   ->   <id> <class> <hex|-> *)
open Model

let rec pos_of_int n = if n = 1 then XH else if n land 1 = 1 then XI (pos_of_int (n lsr 1)) else XO (pos_of_int (n lsr 1))
let n_of_int n = if n = 0 then N0 else Npos (pos_of_int n)
let rec int_of_pos = function XH -> 1 | XO p -> 2 * int_of_pos p | XI p -> 2 * int_of_pos p + 1
let int_of_n = function N0 -> 0 | Npos p -> int_of_pos p
let z_of_int n = if n = 0 then Z0 else if n > 0 then Zpos (pos_of_int n) else Zneg (pos_of_int (-n))
let rec pos_of_int64 (n : int64) =
  if n = 1L then XH
  else if Int64.logand n 1L = 1L then XI (pos_of_int64 (Int64.shift_right_logical n 1))
  else XO (pos_of_int64 (Int64.shift_right_logical n 1))
(* decimal string in the i64 range *)
let z_of_string s =
  let n = Int64.of_string s in
  if n = 0L then Z0 else if n > 0L then Zpos (pos_of_int64 n) else Zneg (pos_of_int64 (Int64.neg n))

let unhex s =
  if s = "-" then [] else begin
    let n = String.length s / 2 in
    let rec go i acc = if i < 0 then acc else go (i - 1) (n_of_int (int_of_string ("0x" ^ String.sub s (2 * i) 2)) :: acc) in
    go (n - 1) []
  end

let hex l =
  match l with
  | [] -> "-"
  | _ ->
    let b = Buffer.create 1024 in
    List.iter (fun x -> Buffer.add_string b (Printf.sprintf "%02x" (int_of_n x))) l;
    Buffer.contents b

let class_name = function
  | Ignored -> "Ignored" | Noop -> "Noop" | Replaced -> "Replaced" | Rewritten -> "Rewritten"
  | BadFormat -> "BadFormat" | Error -> "Error"

let report id nlink_one check x o =
  let cls = match class_of nlink_one o with Some c -> class_name c | None -> "Panic" in
  let after = if check then x else bytes_after x o in
  Printf.printf "%s %s %s\n" id cls (hex after)

let prof = if Array.length Sys.argv > 2 && Sys.argv.(2) = "release" then Release else Debug

exception Case_timeout
let case_timeout = try int_of_string (Sys.getenv "MODEL_CASE_TIMEOUT") with _ -> 20

let bytes_mode () =
  Sys.set_signal Sys.sigalrm (Sys.Signal_handle (fun _ -> raise Case_timeout));
  let ic = open_in Sys.argv.(1) in
  (try
    while true do
      let line = input_line ic in
      match String.split_on_char ' ' (String.trim line) with
      | id :: handler :: epoch :: check :: nlink :: data :: rest_fields ->
        let file_mtime = (match rest_fields with m :: _ when m <> "-" -> Int64.to_int (Int64.of_string m) | _ -> 0) in
        let epoch = if epoch = "-" then None else Some (z_of_string epoch) in
        let check = (check = "1") in
        let nlink_one = (nlink = "1") in
        let x = unhex data in
        ignore (Unix.alarm case_timeout);
        (try (match handler with
         | "gzip" ->
           (match gzip_init epoch with
            | None -> Printf.printf "%s InitFail %s\n" id (hex x)
            | Some e -> report id nlink_one check x (gzip_process e x))
         | "ar" -> report id nlink_one check x (ar_process epoch x)
         | "pyc-zero-mtime" -> report id nlink_one check x (pyc_zero_mtime x)
         | "javadoc" -> report id nlink_one check x (javadoc_process epoch x)
         | "pyc" -> report id nlink_one check x (pyc_process x)
         | "pyc-domain" ->
           (* is the input inside the domain of the round-trip theorems, and is its output read back as the same tree *)
           (match pyc_domain x with
            | None -> Printf.printf "%s DomNone -\n" id
            | Some (dom, rr) -> Printf.printf "%s Dom%d%d -\n" id (if dom then 1 else 0) (if rr then 1 else 0))
         | "zip-domain" | "jar-domain" ->
           (match zip_init epoch with
            | None -> Printf.printf "%s DomNone -\n" id
            | Some init ->
              (match zip_domain init (z_of_int (file_mtime * 1000000000)) x with
               | None -> Printf.printf "%s DomNone -\n" id
               | Some (dom, rr) -> Printf.printf "%s Dom%d%d -\n" id (if dom then 1 else 0) (if rr then 1 else 0)))
         | "zip" | "jar" ->
           (match zip_init epoch with
            | None -> Printf.printf "%s InitFail %s\n" id (hex x)
            | Some init ->
              (match zip_process init (z_of_int (file_mtime * 1000000000)) x with
               | Some o -> report id nlink_one check x o
               | None -> Printf.printf "%s OutOfClass -\n" id))
         | _ -> Printf.printf "%s NoModel -\n" id)
         with Case_timeout -> Printf.printf "%s ModelTimeout -\n" id
            | Out_of_memory -> Printf.printf "%s ModelTimeout -\n" id
            | Stack_overflow -> Printf.printf "%s ModelTimeout -\n" id);
        ignore (Unix.alarm 0);
        flush stdout
      | _ -> ()
    done
  with End_of_file -> ());
  close_in ic

(* ------------------------------------------------------------------ file-system mode *)
(* see lib/fsharness.py for the protocol *)
let rec nat_of_int n = if n <= 0 then O else S (nat_of_int (n - 1))
let int_of_z = function Z0 -> 0 | Zpos p -> int_of_pos p | Zneg p -> - (int_of_pos p)

let kind_of_string = function "R" -> KReg | "D" -> KDir | "L" -> KLnk | _ -> KSpecial
let string_of_kind = function KReg -> "R" | KDir -> "D" | KLnk -> "L" | KSpecial -> "S"
let errno_name = function ENOENT -> "ENOENT" | EEXIST -> "EEXIST" | EPERM -> "EPERM" | EACCES -> "EACCES"
                          | ENOSPC -> "ENOSPC" | EIO -> "EIO" | EOTHER -> "EOTHER"
let errno_of_string = function "ENOENT" -> ENOENT | "EEXIST" -> EEXIST | "EPERM" -> EPERM | "EACCES" -> EACCES
                               | "ENOSPC" -> ENOSPC | "EIO" -> EIO | _ -> EOTHER
let op_kind = function
  | OOpenRead _ -> "openr" | OFstat _ -> "fstat" | OCreateExcl _ -> "creat" | OOpenDevNull -> "devnull"
  | OUnlink _ -> "unlink" | OWrite (_, _, _) -> "write" | OFchmod (_, _) -> "fchmod" | OFutimens (_, _) -> "futimens"
  | OLchown (_, _, _) -> "lchown" | ORename (_, _) -> "rename" | OOpenWrite _ -> "openw" | OTruncate (_, _) -> "truncate"

let handler_fun name epoch =
  match name with
  | "gzip" -> (match gzip_init epoch with Some e -> Some ((fun x -> gzip_process e x), (fun _ -> false)) | None -> None)
  | "ar" -> Some ((fun x -> ar_process epoch x), ar_opens_output)
  | "pyc-zero-mtime" -> Some ((fun x -> pyc_zero_mtime x), (fun _ -> false))
  | "javadoc" -> Some ((fun x -> javadoc_process epoch x), (fun _ -> true))
  | "pyc" -> Some ((fun x -> pyc_process x), (fun _ -> false))
  | _ -> None

let ext_of_handler = function
  | "ar" -> "a" | "gzip" -> "gz" | "javadoc" -> "html" | "pyc" | "pyc-zero-mtime" -> "pyc" | "zip" -> "zip" | "jar" -> "jar" | _ -> "?"
let bytes_of_ocaml (s : Stdlib.String.t) = List.init (String.length s) (fun i -> n_of_int (Char.code s.[i]))

let fs_mode file =
  let ic = open_in file in
  let nodes = ref [] in
  let id = ref "" in
  (try
    while true do
      let line = input_line ic in
      match String.split_on_char ' ' (String.trim line) with
      | ["FS"; i] -> id := i; nodes := []
      | ["N"; ph; ino; k; mode; uid; gid; mtime; nlink; data] ->
        nodes := (unhex ph, int_of_string ino,
                  { i_kind = kind_of_string k; i_data = unhex data; i_mode = n_of_int (int_of_string mode);
                    i_uid = n_of_int (int_of_string uid); i_gid = n_of_int (int_of_string gid);
                    i_mtime = z_of_string mtime; i_nlink = n_of_int (int_of_string nlink) }) :: !nodes
      | "WALK" :: hnames :: epoch :: check :: prof :: umask :: uid :: gid :: canchown :: now :: entries ->
        let epoch = if epoch = "-" then None else Some (z_of_string epoch) in
        let nl = List.rev !nodes in
        let names p = (try let (_, i, _) = List.find (fun (q, _, _) -> q = p) nl in Some (n_of_int i) with Not_found -> None) in
        let inodes j = (try let (_, _, n) = List.find (fun (_, i, _) -> n_of_int i = j) nl in Some n with Not_found -> None) in
        let next = 1 + List.fold_left (fun a (_, i, _) -> Stdlib.max a i) 0 nl in
        let f0 = { names = names; inodes = inodes; next_ino = n_of_int next } in
        let env = { e_umask = n_of_int (int_of_string umask); e_uid = n_of_int (int_of_string uid);
                    e_gid = n_of_int (int_of_string gid); e_can_chown = (canchown = "1"); e_now = z_of_string now } in
        let mode = if check = "1" then Check else Real in
        let prof = if prof = "release" then Release else Debug in
        let hs = List.filter_map (fun hn -> match handler_fun hn epoch with
                   | Some (h, eager) -> Some { hd_ext = bytes_of_ocaml (ext_of_handler hn); hd_eager = eager; hd_fun = h }
                   | None -> None) (if hnames = "-" then [] else String.split_on_char ',' hnames) in
        let ents = List.map unhex entries in
        (match walk env None mode prof hs (init_wstate f0) ents with
         | None -> Printf.printf "%s PANIC\n%s END\n" !id !id
         | Some w ->
           let st = w.w_stats in
           Printf.printf "%s STATS %d %d %d %d %d %d %d\n" !id (int_of_n st.st_dirs) (int_of_n st.st_files) (int_of_n st.st_processed)
             (int_of_n st.st_replaced) (int_of_n st.st_rewritten) (int_of_n st.st_mis) (int_of_n st.st_errors);
           let show f q =
             match obs f q with
             | Some (i, n) -> Printf.sprintf "%d %s %d %d %d %d %d %s" (int_of_n i) (string_of_kind n.i_kind) (int_of_n n.i_mode)
                                (int_of_n n.i_uid) (int_of_n n.i_gid) (int_of_z n.i_mtime) (int_of_n n.i_nlink) (hex n.i_data)
             | None -> "ABSENT" in
           let paths = List.sort_uniq compare (List.map (fun (q, _, _) -> q) nl @ List.map tmp_path ents) in
           List.iter (fun q -> Printf.printf "%s OBS %s %s\n" !id (hex q) (show w.w_sim.s_fs q)) paths;
           Printf.printf "%s END\n" !id)
      | ["RUN"; hname; epoch; check; prof; target; fkind; focc; fer; umask; uid; gid; canchown; now] ->
        let epoch = if epoch = "-" then None else Some (z_of_string epoch) in
        let nl = List.rev !nodes in
        let names p = (try let (_, i, _) = List.find (fun (q, _, _) -> q = p) nl in Some (n_of_int i) with Not_found -> None) in
        let inodes j = (try let (_, _, n) = List.find (fun (_, i, _) -> n_of_int i = j) nl in Some n with Not_found -> None) in
        let next = 1 + List.fold_left (fun a (_, i, _) -> Stdlib.max a i) 0 nl in
        let f0 = { names = names; inodes = inodes; next_ino = n_of_int next } in
        let env = { e_umask = n_of_int (int_of_string umask); e_uid = n_of_int (int_of_string uid);
                    e_gid = n_of_int (int_of_string gid); e_can_chown = (canchown = "1"); e_now = z_of_string now } in
        let mode = if check = "1" then Check else Real in
        let prof = if prof = "release" then Release else Debug in
        let p = unhex target in
        (match handler_fun hname epoch with
         | None -> Printf.printf "%s CLASS InitFail\n%s END\n" !id !id
         | Some (h, eager) ->
           let run fault = run_handler env fault mode prof eager h p (init_sim f0) in
           (* translate (kind, occurrence) into an operation index using the fault-free trace *)
           let fault =
             if fkind = "-" then None else begin
               let (s0, _) = run None in
               let tr = trace_of s0 in
               let occ = int_of_string focc in
               let rec find i n = function
                 | [] -> None
                 | (o, _) :: r -> if op_kind o = fkind then (if n = occ then Some i else find (i + 1) (n + 1) r) else find (i + 1) n r in
               match find 0 1 tr with
               | Some i -> Some (nat_of_int i, errno_of_string fer)
               | None -> None
             end in
           let (s, cls) = run fault in
           Printf.printf "%s CLASS %s\n" !id (match cls with Some c -> class_name c | None -> "Panic");
           Printf.printf "%s FAULTHIT %s\n" !id (match fault with Some _ -> "1" | None -> if fkind = "-" then "-" else "0");
           let ip0 = names p in
           let okind o = match o with
             | OWrite (i, _, _) -> if Some i = ip0 then "writep" else "writet"
             | _ -> op_kind o in
           Printf.printf "%s TRACE %s\n" !id
             (String.concat " " (List.map (fun (o, r) -> okind o ^ ":" ^ (match r with None -> "ok" | Some er -> errno_name er)) (trace_of s)));
           let show f q =
             match obs f q with
             | Some (i, n) -> Printf.sprintf "%d %s %d %d %d %d %d %s" (int_of_n i) (string_of_kind n.i_kind) (int_of_n n.i_mode)
                                (int_of_n n.i_uid) (int_of_n n.i_gid) (int_of_z n.i_mtime) (int_of_n n.i_nlink) (hex n.i_data)
             | None -> "ABSENT" in
           let paths = List.sort_uniq compare (List.map (fun (q, _, _) -> q) nl @ [p; tmp_path p]) in
           List.iter (fun q -> Printf.printf "%s OBS %s %s\n" !id (hex q) (show s.s_fs q)) paths;
           List.iteri (fun k f -> Printf.printf "%s HIST %d %s | %s\n" !id k (show f p)
                                   (match obs f (tmp_path p) with Some _ -> "TMP" | None -> "NOTMP")) (List.rev s.s_hist);
           Printf.printf "%s END\n" !id)
      | _ -> ()
    done
  with End_of_file -> ());
  close_in ic

(* ------------------------------------------------------------------ config mode *)
let coq_string_of (s : Stdlib.String.t) =
  let n = String.length s in
  let rec go i = if i >= n then EmptyString else
    let c = Char.code s.[i] in
    let b k = (c lsr k) land 1 = 1 in
    String (Ascii (b 0, b 1, b 2, b 3, b 4, b 5, b 6, b 7), go (i + 1)) in
  go 0
let rec ocaml_string_of = function
  | EmptyString -> ""
  | String (Ascii (b0, b1, b2, b3, b4, b5, b6, b7), r) ->
    let v x k = if x then 1 lsl k else 0 in
    String.make 1 (Char.chr (v b0 0 + v b1 1 + v b2 2 + v b3 3 + v b4 4 + v b5 5 + v b6 6 + v b7 7)) ^ ocaml_string_of r

(* S <id> <epoch|-> <item1,item2,...|->   : selection + initialisation
   V <id> <check> <brp> <errors> <mis> <repl> <rew> : verdict *)
let cfg_mode file =
  let ic = open_in file in
  (try
    while true do
      let line = input_line ic in
      match String.split_on_char ' ' line with
      | ["S"; id; epoch; items] ->
        let filter = if items = "-" then [] else List.map coq_string_of (String.split_on_char ',' items) in
        let epoch = sanitize_epoch (if epoch = "-" then None else Some (z_of_string epoch)) in
        (match requested_handlers filter with
         | None -> Printf.printf "%s SELERR\n" id
         | Some (l, strict) ->
           (match make_handlers l strict epoch with
            | None -> Printf.printf "%s INITERR %s\n" id (String.concat "," (List.map ocaml_string_of l))
            | Some hs -> Printf.printf "%s OK %s | %s | %s\n" id (String.concat "," (List.map ocaml_string_of l)) (if strict then "strict" else "lenient")
                           (String.concat "," (List.map ocaml_string_of hs))))
      | "B" :: id :: brp :: root :: args ->
        let root = if root = "-" then None else Some (if root = "E" then [] else unhex root) in
        Printf.printf "%s %s\n" id (if brp_check (brp = "1") root (List.map unhex args) then "PASS" else "ABORT")
      | ["V"; id; check; brp; errors; mis; repl; rew] ->
        let n s = n_of_int (int_of_string s) in
        Printf.printf "%s %s\n" id (if main_verdict (check = "1") (brp = "1") (n errors) (n mis) (n repl) (n rew) then "FAIL" else "PASS")
      | _ -> ()
    done
  with End_of_file -> ());
  close_in ic



let rec nat_of_int_ n = if n <= 0 then O else S (nat_of_int_ (n - 1))

(* M <id> <n workers> <n jobs> <events: R<i> | F<i> ...>  : replay of an observed schedule through Multi.run *)
let multi_mode file =
  let ic = open_in file in
  (try
    while true do
      let line = input_line ic in
      match String.split_on_char ' ' line with
      | "M" :: id :: n :: j :: evs ->
        let ev s = let i = nat_of_int_ (int_of_string (String.sub s 1 (String.length s - 1))) in if s.[0] = 'R' then Recv i else Finish i in
        let evs = List.map ev (List.filter (fun s -> s <> "") evs) in
        (match multi_replay (nat_of_int_ (int_of_string n)) (nat_of_int_ (int_of_string j)) evs with
         | None -> Printf.printf "%s STUCK\n" id
         | Some (((term, fin), nres), processed) ->
           let rec int_of_nat = function O -> 0 | S k -> 1 + int_of_nat k in
           Printf.printf "%s OK terminal=%b results=%d processed=%d finished=%s\n" id term (int_of_nat nres) (int_of_n processed)
             (String.concat "," (List.map (fun k -> string_of_int (int_of_nat k)) fin)))
      | _ -> ()
    done
  with End_of_file -> ());
  close_in ic

let () =
  if Array.length Sys.argv > 3 && Sys.argv.(3) = "multi" then multi_mode Sys.argv.(1)
  else if Array.length Sys.argv > 3 && Sys.argv.(3) = "fs" then fs_mode Sys.argv.(1)
  else if Array.length Sys.argv > 3 && Sys.argv.(3) = "cfg" then cfg_mode Sys.argv.(1)
  else bytes_mode ()
